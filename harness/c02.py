"""C02: correspondence for the rule parser (Tokeniser, Parser with aliases / superiors / multipliers over
several files as in create_rules, the __str__ family, reconstruct_rule_text) + round-trip specification."""
import glob
import json
import os

import common
from common import err_code

PROP = 2

SIGS = ["a", "b", "c", "d", "e", "PKS_KS", "t2-x", "A1", "x_y", "LANC-like", "f9"]
EXTRA_IDS = ["zz", "unk", "q-1"]          # identifiers that are not signatures
CATS = ["cat", "PKS", "other"]
RULE_NAMES = ["r1", "r2", "r3", "T1-pks", "lanthi_x", "r4", "r5"]
ALIAS_NAMES = ["al1", "al2", "grp", "X-y", "al3"]
TEXT_WORDS = ["cluster", "score", "12-34", "_", "7_", "http://x.y/z", "5-", "--", "0-0"]
WORDS = ["some", "words", "of", "text", "and", "or", "not", "(", ")", ",", ".", "minimum", "cds", "3", "0x", "a", "al1"]
KEYWORDS = ["RULE", "CATEGORY", "DESCRIPTION", "EXAMPLE", "RELATED", "SUPERIORS", "CUTOFF", "NEIGHBOURHOOD",
            "CONDITIONS", "EXTENDERS", "DEFINE", "AS"]
PUNCT = set("()[],.")
# multipliers whose product with a multiple of 1000 is exact in double arithmetic (dyadic rationals)
MULTS = [(1, 1), (1, 1), (1, 1), (3, 2), (1, 2), (2, 1), (5, 4), (3, 4), (1, 4), (5, 2), (1, 8), (3, 1)]


def enc_str(text):
    return [len(text)] + [ord(c) for c in text]


def enc_strs(items):
    out = [len(items)]
    for item in items:
        out += enc_str(item)
    return out


# ---------------------------------------------------------------- implementation adapter
def tree_of(cond, rp):
    """ nested tuples for a Conditions object, read through its public attributes """
    kind = type(cond)
    if kind is rp.SingleCondition:
        return ("S", bool(cond.negated), cond.name)
    if kind is rp.ScoreCondition:
        return ("SC", bool(cond.negated), cond.name, cond.score)
    if kind is rp.MinimumCondition:
        return ("M", bool(cond.negated), cond.count, tuple(sorted(cond.options)))
    subs = cond.sub_conditions
    operands = [tree_of(sub, rp) for sub in subs[::2]]
    operators = subs[1::2]
    assert list(cond.operands) == list(subs[::2])
    if kind is rp.AndCondition:
        if any(op != rp.TokenTypes.AND for op in operators):
            return ("BAD",)
        return ("A", operands)
    if any(op != rp.TokenTypes.OR for op in operators):
        return ("BAD",)
    if kind is rp.CDSCondition:
        return ("C", bool(cond.negated), operands)
    if kind is rp.Conditions:
        return ("G", bool(cond.negated), operands)
    return ("BAD",)


def enc_tree(tree):
    kind = tree[0]
    if kind == "S":
        return [1, int(tree[1])] + enc_str(tree[2])
    if kind == "SC":
        return [2, int(tree[1])] + enc_str(tree[2]) + [tree[3]]
    if kind == "M":
        return [3, int(tree[1]), tree[2]] + enc_strs(list(tree[3]))
    if kind in ("C", "G"):
        out = [4 if kind == "C" else 5, int(tree[1]), len(tree[2])]
        for sub in tree[2]:
            out += enc_tree(sub)
        return out
    if kind == "A":
        out = [6, len(tree[1])]
        for sub in tree[1]:
            out += enc_tree(sub)
        return out
    return [98]


def negate(tree):
    if tree[0] in ("BAD", "A"):
        return ("NOT", tree)
    return (tree[0], not tree[1]) + tuple(tree[2:])


def norm(tree):
    """ removes the wrappers the printer does not print: Conditions(neg, [x]) with x not an AndCondition means
        x (negated once more if neg) """
    kind = tree[0]
    if kind == "G" and len(tree[2]) == 1 and tree[2][0][0] != "A":
        inner = norm(tree[2][0])
        return negate(inner) if tree[1] else inner
    if kind in ("C", "G"):
        return (kind, tree[1], [norm(sub) for sub in tree[2]])
    if kind == "A":
        return ("A", [norm(sub) for sub in tree[1]])
    return tree


def enc_rule(rule, rp):
    out = enc_str(rule.name) + enc_str(rule.category) + [rule.cutoff, rule.neighbourhood]
    out += enc_str(str(rule.conditions)) + enc_tree(tree_of(rule.conditions, rp))
    out += enc_strs(list(rule.superiors)) + enc_strs(list(rule.related))
    if rule.extenders is None:
        out += [0]
    else:
        out += [1] + enc_str(str(rule.extenders)) + enc_tree(tree_of(rule.extenders, rp))
    out += enc_str(rule.description) + enc_strs([str(ex) for ex in rule.examples])
    out += enc_str(rule.reconstruct_rule_text())
    return out


def run_parser(files, sigs, cats, mult):
    """ the loop of cluster_prediction.create_rules, with Parser called directly; returns (flat, rules) """
    from antismash.common.hmm_rule_parser import rule_parser as rp
    from antismash.common.hmm_rule_parser.structures import Multipliers
    aliases = {}
    rules = []
    multipliers = Multipliers(cutoff=mult[0] / mult[1], neighbourhood=mult[2] / mult[3])
    for idx, text in enumerate(files):
        try:
            parser = common.call_with_timeout(
                lambda: rp.Parser(text, set(sigs), set(cats), rules, existing_aliases=aliases,
                                  multipliers=multipliers), 5)
        except Exception as exc:  # pylint: disable=broad-except
            return [1, err_code(exc), idx], None
        aliases.update(parser.aliases)
        rules = parser.rules
    out = [0, len(rules)]
    for rule in rules:
        out += enc_rule(rule, rp)
    out += [len(aliases)]
    for name, tokens in aliases.items():
        out += enc_str(name) + enc_strs([tok.token_text for tok in tokens])
    return out, rules


def run_create_rules(files, sigs, cats, mult, tmpdir):
    """ the real create_rules on files written to a scratch directory; returns the same encoding (without aliases) """
    from antismash.common.hmm_rule_parser import rule_parser as rp
    from antismash.common.hmm_rule_parser import cluster_prediction as cp
    from antismash.common.hmm_rule_parser.structures import Multipliers
    paths = []
    for idx, text in enumerate(files):
        path = os.path.join(tmpdir, f"rules{idx}.txt")
        with open(path, "w", encoding="utf-8", newline="") as handle:
            handle.write(text)
        paths.append(path)
    try:
        rules = common.call_with_timeout(
            lambda: cp.create_rules(paths, set(sigs), set(cats),
                                    Multipliers(cutoff=mult[0] / mult[1], neighbourhood=mult[2] / mult[3])), 5)
    except Exception as exc:  # pylint: disable=broad-except
        return [1, err_code(exc)]
    out = [0, len(rules)]
    for rule in rules:
        out += enc_rule(rule, rp)
    return out


def run_tokeniser(text):
    from antismash.common.hmm_rule_parser import rule_parser as rp
    try:
        tokens = rp.Tokeniser(text).tokens
    except Exception as exc:  # pylint: disable=broad-except
        return [1, err_code(exc)]
    out = [0, len(tokens)]
    for tok in tokens:
        out += enc_str(tok.token_text) + [int(tok.type)]
    return out


# ---------------------------------------------------------------- generators
class Gen:
    def __init__(self, rng):
        self.rng = rng

    # --- condition texts as token lists
    def ident(self, unknown=0.004):
        if self.rng.random() < unknown:
            return self.rng.choice(EXTRA_IDS)
        return self.rng.choice(SIGS)

    def leaf(self, in_cds, aliases, avoid):
        """ avoid: identifiers already used as plain operands of the same operator list (a repeated operand is
            rejected); respected except with a small probability """
        rng = self.rng
        r = rng.random()
        if aliases and r < (0.02 if in_cds else 0.12):
            return [rng.choice(aliases)]
        if r < 0.62 or (in_cds and r >= 0.72):
            name = self.ident()
            for _ in range(6):
                if name not in avoid or rng.random() < 0.02:
                    break
                name = self.ident()
            avoid.add(name)
            return [name]
        if r < 0.74:
            return ["minscore", "(", self.ident(), ",", str(rng.choice([0, 1, 15, 150, 7, 20, 30, 40])), ")"]
        if r < 0.86:
            n = rng.randint(1, 4)
            opts = rng.sample(SIGS, n) if rng.random() < 0.98 else [rng.choice(SIGS) for _ in range(n)]
            toks = ["minimum", "(", str(rng.choice([1, 2, 2, 3, 0] if rng.random() < 0.03 else [1, 2, 3])), ",", "["]
            for i, opt in enumerate(opts):
                toks += ([","] if i else []) + [opt]
            return toks + ["]", ")"]
        return ["cds", "("] + self.cds_body(aliases) + [")"]

    def cds_body(self, aliases):
        rng = self.rng
        if rng.random() < 0.01:
            return [self.ident()]  # rejected: single identifier
        if rng.random() < 0.012:
            # accepted; regression class cds_single_wrapped (repaired): printed as cds((x)), not as cds(x)
            return ["("] + (["not"] if rng.random() < 0.3 else []) + [self.ident(0)] + [")"]
        return self.ors(rng.randint(1, 2), True, aliases, at_least_two=True)

    def unary(self, depth, in_cds, aliases, avoid, allow_not=True):
        rng = self.rng
        toks = []
        if allow_not and rng.random() < 0.2:
            toks.append("not")
            if rng.random() < 0.005:
                toks.append("not")
        if depth > 0 and rng.random() < 0.3:
            return toks + ["("] + self.ors(depth - 1, in_cds, aliases) + [")"]
        return toks + self.leaf(in_cds, aliases, avoid if not toks else set())

    def ands(self, depth, in_cds, aliases, force=False, allow_not=True, or_avoid=None):
        rng = self.rng
        n = rng.choice([1, 1, 1, 2, 2, 3, 4]) if not force else rng.choice([2, 2, 3])
        avoid = or_avoid if (n == 1 and or_avoid is not None) else set()
        toks = self.unary(depth, in_cds, aliases, avoid, allow_not)
        for _ in range(n - 1):
            toks += ["and"] + self.unary(depth, in_cds, aliases, avoid)
        return toks

    def ors(self, depth, in_cds, aliases, at_least_two=False, positive=False):
        """ positive: every alternative starts with a non-negated operand (so the rule has a positive requirement) """
        rng = self.rng
        n = rng.choice([1, 1, 2, 2, 3, 4])
        or_avoid = set()
        toks = self.ands(depth, in_cds, aliases, force=at_least_two and n == 1, allow_not=not positive, or_avoid=or_avoid)
        for _ in range(n - 1):
            toks += ["or"] + self.ands(depth, in_cds, aliases, allow_not=not positive, or_avoid=or_avoid)
        return toks

    def conditions(self, aliases, depth=None):
        depth = self.rng.choice([0, 1, 1, 2, 2, 3, 4, 6]) if depth is None else depth
        while True:
            toks = self.ors(depth, False, aliases, positive=self.rng.random() < 0.9)
            if len(toks) <= 250:
                return toks

    # --- rule blocks
    def rule(self, name, known_rules, aliases):
        rng = self.rng
        toks = ["RULE", name, "CATEGORY", rng.choice(CATS) if rng.random() < 0.995 else "nocat"]
        if rng.random() < 0.3:
            toks += ["DESCRIPTION"] + [rng.choice(WORDS + TEXT_WORDS) for _ in range(rng.randint(0 if rng.random() < 0.1 else 1, 6))]
        for _ in range(rng.choice([0, 0, 0, 1, 1, 2])):
            start = rng.choice([0, 5, 100])
            end = start + rng.choice([0, 1, 2000]) if rng.random() < 0.985 else start - 1
            toks += ["EXAMPLE", "NCBI" if rng.random() < 0.985 else "EMBL", rng.choice(["ACC", "AB-1", "NC_000"]), ".",
                     str(rng.choice([1, 2, 10, 1, 0]) if rng.random() < 0.05 else rng.choice([1, 2, 10])),
                     f"{start}-{end}" if rng.random() < 0.98 else rng.choice(["5", "1-2-3", "5-", "-5", "--", "x-1"])]
            toks += [rng.choice(["compound", "A", "name-1", "12", "cluster", ".", "("]) for _ in range(rng.choice([0, 0, 1, 3]))]
        if rng.random() < 0.25:
            ids = [self.ident(0.1) for _ in range(rng.randint(1, 3))]
            toks += ["RELATED"] + [t for i, x in enumerate(ids) for t in (([","] if i else []) + [x])]
        if known_rules and rng.random() < 0.5 or rng.random() < 0.01:
            pool = known_rules + (["nosuch"] if rng.random() < 0.03 else [])
            if not pool:
                pool = ["nosuch"]
            k = rng.randint(1, min(3, len(pool)))
            ids = rng.sample(pool, k) if rng.random() < 0.98 else [rng.choice(pool) for _ in range(k)]
            toks += ["SUPERIORS"] + [t for i, x in enumerate(ids) for t in (([","] if i else []) + [x])]
        toks += ["CUTOFF", str(rng.choice([1, 5, 10, 20, 45, 7, 0])), "NEIGHBOURHOOD", str(rng.choice([1, 5, 10, 20, 33, 0, "007"]))]
        toks += ["CONDITIONS"] + self.conditions(aliases)
        if rng.random() < 0.15:
            r = rng.random()
            if r < 0.5:
                toks += ["EXTENDERS", self.ident(0.1)]
            elif r < 0.95:
                toks += ["EXTENDERS", "cds", "("] + self.cds_body([]) + [")"]
            else:
                toks += ["EXTENDERS"] + rng.choice([["not", "a"], ["(", "a", ")"], [], ["a", "b"], ["a", "and", "b"]])
        return toks

    def define(self, name, aliases):
        rng = self.rng
        r = rng.random()
        if r < 0.85:
            body = self.conditions(aliases, depth=rng.choice([0, 1, 2]))
        elif r < 0.9:
            # a later alias used inside an earlier definition, partial constructs
            body = rng.choice([[rng.choice(ALIAS_NAMES), "or", "a"], ["a", "or", rng.choice(ALIAS_NAMES)], ["(", "a", "or", "b"],
                               ["a", ",", "b"], ["b", "and"], [name], ["a", "or", name], ["cluster"], []])
        else:
            body = [self.ident()]
        return ["DEFINE", name, "AS"] + body

    def file_blocks(self, state):
        """ state: dict(rules=[names], aliases=[names]) shared between the files of one case """
        rng = self.rng
        blocks = []
        for _ in range(rng.choice([1, 1, 2, 2, 3, 4, 5])):
            if rng.random() < 0.25:
                free = [n for n in ALIAS_NAMES if n not in state["aliases"]]
                name = rng.choice(free) if free and rng.random() < 0.93 else rng.choice(ALIAS_NAMES + RULE_NAMES[:2] + SIGS[:2] + CATS[:1])
                blocks.append(self.define(name, state["aliases"]))
                if name not in state["aliases"]:
                    state["aliases"].append(name)
            else:
                free = [n for n in RULE_NAMES if n not in state["rules"]]
                name = rng.choice(free) if free and rng.random() < 0.95 else rng.choice(RULE_NAMES + ALIAS_NAMES[:1])
                blocks.append(self.rule(name, list(state["rules"]), list(state["aliases"])))
                if name not in state["rules"]:
                    state["rules"].append(name)
        return blocks

    # --- rendering
    def comment(self):
        rng = self.rng
        return "#" + "".join(rng.choice(["x", " ", "RULE", "(", "#", "!", ":", "\t", "and", "é"[:0], "a"]) for _ in range(rng.randint(0, 5))) + "\n"

    def separator(self, needed, plain):
        rng = self.rng
        if plain:
            return " " if needed else ""
        out = ""
        n = rng.choice([0, 0, 1, 1, 1, 2, 3])
        for _ in range(n):
            r = rng.random()
            out += " " if r < 0.6 else "\n" if r < 0.75 else "\t" if r < 0.85 else self.comment() if r < 0.97 else rng.choice(["\r", "\x0b", "\x0c"])
        if needed and not out:
            out = rng.choice([" ", "\n", "\t", "  ", " " + self.comment()])
        return out

    def render(self, tokens, plain=False):
        out = self.separator(False, plain)
        prev_word = False
        for i, tok in enumerate(tokens):
            word = tok not in PUNCT
            if i:
                out += self.separator(prev_word and word, plain if (prev_word and word) else (plain or self.rng.random() < 0.5))
            out += tok
            prev_word = word
        out += self.separator(False, plain)
        if not plain and self.rng.random() < 0.05:
            out += "# trailing comment without newline"
        return out

    # --- corruption of one token
    def corrupt(self, tokens):
        rng = self.rng
        if not tokens:
            return tokens, "empty"
        toks = list(tokens)
        i = rng.randrange(len(toks))
        r = rng.random()
        if r < 0.25:
            del toks[i]
            return toks, "delete"
        if r < 0.4:
            toks.insert(i, toks[i])
            return toks, "duplicate"
        if r < 0.55 and len(toks) > 1:
            j = min(i + 1, len(toks) - 1)
            toks[i], toks[j] = toks[j], toks[i]
            return toks, "swap"
        kind = rng.random()
        if kind < 0.25:
            toks[i] = rng.choice(KEYWORDS)
        elif kind < 0.5:
            toks[i] = rng.choice(["(", ")", "[", "]", ",", ".", "and", "or", "not", "minimum", "cds", "minscore"])
        elif kind < 0.7:
            toks[i] = rng.choice(SIGS + EXTRA_IDS + ALIAS_NAMES + RULE_NAMES)
        elif kind < 0.85:
            toks[i] = rng.choice(["0", "3", "12", "007"])
        elif kind < 0.95:
            toks[i] = rng.choice(TEXT_WORDS)
        else:
            toks[i] = rng.choice(["!", "a=b", ":x", "/", "a:b", "x/y", "\"q\"", "{", "a;b"])
        return toks, "replace"

    def char_soup(self):
        rng = self.rng
        alphabet = list("ab1 _-.:/#()[],\n\t!") + ["and", "RULE", "or", "cluster", " ", " "]
        return "".join(rng.choice(alphabet) for _ in range(rng.randint(0, 25)))


def check_superiors(rules):
    """ the property's clause on SUPERIORS, evaluated on the implementation's rules """
    seen = {}
    for rule in rules:
        sups = list(rule.superiors)
        if sups != sorted(set(sups)):
            return f"superiors of {rule.name} are not a sorted duplicate-free list: {sups}"
        for name in sups:
            if name not in seen:
                return f"superior {name} of {rule.name} is not an earlier rule"
            missing = set(seen[name].superiors) - set(sups)
            if missing:
                return f"superiors of {rule.name} lack {sorted(missing)}, the superiors of its superior {name}"
        if rule.name in seen:
            return f"two rules are named {rule.name}"
        seen[rule.name] = rule
    return None


def has_positive(tree):
    """ at least one positive requirement (documented: 'not a and not c' has none, 'a and not c' and '(a or not c)' have) """
    kind = tree[0]
    if kind in ("S", "SC", "M"):
        return not tree[1]
    if kind in ("C", "G"):
        return (not tree[1]) and any(has_positive(sub) for sub in tree[2])
    if kind == "A":
        return any(has_positive(sub) for sub in tree[1])
    return False


def repeated_operand(cond):
    """ some operator node of the condition object has two operands with the same text """
    operands = list(getattr(cond, "operands", []))
    texts = [str(op) for op in operands]
    if len(set(texts)) != len(texts):
        return True
    options = getattr(cond, "options", None)
    return any(repeated_operand(op) for op in operands)


def ill_formed_node(tree):
    """ a node the documented grammar excludes: minimum() with a count below 1, cds() around a single identifier """
    kind = tree[0]
    if kind == "M" and tree[2] < 1:
        return f"minimum() with count {tree[2]}"
    if kind == "C" and len(tree[2]) == 1 and tree[2][0][0] == "S":
        return f"cds() around the single identifier {tree[2][0][2]}"
    if kind in ("C", "G"):
        subs = tree[2]
    elif kind == "A":
        subs = tree[1]
    else:
        subs = []
    for sub in subs:
        found = ill_formed_node(sub)
        if found:
            return found
    return None


def check_conditions(rules, rp):
    for rule in rules:
        for what, cond in (("conditions", rule.conditions), ("extenders", rule.extenders)):
            if cond is None:
                continue
            bad_node = ill_formed_node(tree_of(cond, rp))
            if bad_node:
                return f"rule {rule.name}: {what} with {bad_node} were accepted: {cond}"
            if repeated_operand(cond):
                return f"rule {rule.name}: {what} with a repeated operand were accepted: {cond}"
            if not has_positive(tree_of(cond, rp)):
                return f"rule {rule.name}: {what} without a positive requirement were accepted: {cond}"
    return None


def tree_names(tree):
    """ the profile names a condition tree refers to """
    kind = tree[0]
    if kind in ("S", "SC"):
        return {tree[2]}
    if kind == "M":
        return set(tree[3])
    if kind in ("C", "G"):
        return set().union(*[tree_names(sub) for sub in tree[2]]) if tree[2] else set()
    if kind == "A":
        return set().union(*[tree_names(sub) for sub in tree[1]]) if tree[1] else set()
    return set()


def check_profiles(rules, sigs, rp):
    """ unknown profile: (problem in CONDITIONS or None, unknown names in EXTENDERS or None) """
    known = set(sigs)
    extender_names = None
    for rule in rules:
        unknown = tree_names(tree_of(rule.conditions, rp)) - known
        if unknown:
            return f"rule {rule.name}: conditions naming {sorted(unknown)}, which are not signatures, were accepted", None
        if rule.extenders is not None:
            unknown = tree_names(tree_of(rule.extenders, rp)) - known
            if unknown and extender_names is None:
                extender_names = f"rule {rule.name}: EXTENDERS naming {sorted(unknown)}, which are not signatures, were accepted"
    return None, extender_names


CDS_SINGLE = None


def is_cds_single_text(text):
    """ the regenerated text holds cds((<identifier>)) or cds((not <identifier>)): the explicit group that
        CDSCondition.__str__ keeps around an only member printing as a bare identifier (regression class
        cds_single_wrapped, repaired; before the repair the text was cds(<identifier>), which the parser rejects) """
    global CDS_SINGLE  # pylint: disable=global-statement
    if CDS_SINGLE is None:
        import re
        CDS_SINGLE = re.compile(r"cds\(\((not )?[A-Za-z0-9_-]+\)\)")
    return CDS_SINGLE.search(text) is not None


# ---------------------------------------------------------------- independent recogniser of the documented grammar
GRAMMAR_WORDS = {"and", "or", "not", "minimum", "cds", "minscore", "cluster", "score", "AS"} | set(KEYWORDS)


def _is_id(tok):
    return (tok not in GRAMMAR_WORDS and any(ch.isalpha() for ch in tok)
            and all(ch.isalnum() or ch in "_-" for ch in tok) and tok.isascii())


def _is_int(tok):
    return tok.isdigit() and tok.isascii()


def recognise_conditions(toks):
    """ True iff toks is a sentence of  ors ::= item {or item}; item ::= un {and un}; un ::= [not] core;
        core ::= ID | ( ors ) | cds( ors' ) | minimum( INT , [ ID {, ID} ] ) | minscore( ID , INT )
        (cds and minimum only outside cds; the content of cds is more than a possibly negated identifier).
        Written independently of rule_parser.py and of the Coq model. """
    n = len(toks)

    def tok(i):
        return toks[i] if i < n else None

    def ors(i, allow):
        i = item(i, allow)
        while i is not None and tok(i) == "or":
            i = item(i + 1, allow)
        return i

    def item(i, allow):
        i = unary(i, allow)
        while i is not None and tok(i) == "and":
            i = unary(i + 1, allow)
        return i

    def expect(i, what):
        return i + 1 if i is not None and tok(i) == what else None

    def unary(i, allow):
        if i is None:
            return None
        if tok(i) == "not":
            i += 1
        cur = tok(i)
        if cur == "(":
            return expect(ors(i + 1, allow), ")")
        if cur == "cds" and allow:
            start = expect(i + 1, "(")
            end = ors(start, False) if start is not None else None
            if end is None:
                return None
            inside = toks[start:end]
            if len(inside) == 1 or (len(inside) == 2 and inside[0] == "not"):
                return None
            return expect(end, ")")
        if cur == "minimum" and allow:
            i = expect(i + 1, "(")
            if i is None or not _is_int(tok(i) or ""):
                return None
            i = expect(expect(i + 1, ","), "[")
            if i is None or not _is_id(tok(i) or ""):
                return None
            i += 1
            while tok(i) == ",":
                if not _is_id(tok(i + 1) or ""):
                    return None
                i += 2
            return expect(expect(i, "]"), ")")
        if cur == "minscore":
            i = expect(i + 1, "(")
            if i is None or not _is_id(tok(i) or ""):
                return None
            i = expect(i + 1, ",")
            if i is None or not _is_int(tok(i) or ""):
                return None
            return expect(i + 1, ")")
        if cur is not None and _is_id(cur):
            return i + 1
        return None

    return ors(0, True) == n


def check_grammar(token_files):
    """ for an ACCEPTED case: the tokens between CONDITIONS and EXTENDERS / the end of every RULE block (aliases
        replaced by their definitions) must be a sentence of the documented grammar; returns a problem or None,
        and None when the case cannot be judged (alias layouts outside substitute_aliases) """
    if any(tok == "DEFINE" for toks in token_files for tok in toks):
        token_files = substitute_aliases(token_files)
        if token_files is None:
            return None
    for toks in token_files:
        blocks = []
        for tok in toks:
            if tok == "RULE" or not blocks:
                blocks.append([])
            blocks[-1].append(tok)
        for block in blocks:
            if block.count("CONDITIONS") != 1:
                return None
            conds = block[block.index("CONDITIONS") + 1:]
            if "EXTENDERS" in conds:
                conds = conds[:conds.index("EXTENDERS")]
            if not recognise_conditions(conds):
                return ("accepted CONDITIONS that are not a sentence of the documented grammar: " + " ".join(conds))[:400]
    return None


def substitute_aliases(token_files):
    """ DEFINE as textual substitution: drops the DEFINE blocks and replaces every alias name inside the CONDITIONS
        and EXTENDERS sections of later RULE blocks by the tokens of its definition (recursively).  Returns None
        when the case is outside what is compared (alias names elsewhere, malformed DEFINE, definition starting
        with an alias name = finding class alias_first_token, nesting too deep). """
    defs = {}

    def expand(name, depth):
        if depth > 8:
            raise ValueError("too deep")
        out = []
        for pos, tok in enumerate(defs[name]):
            if tok in defs:
                if pos == 0:
                    raise ValueError("definition starts with an alias name")
                out += expand(tok, depth + 1)
            else:
                out.append(tok)
        return out

    files = []
    try:
        for toks in token_files:
            blocks = []
            for tok in toks:
                if tok in ("RULE", "DEFINE") or not blocks:
                    blocks.append([])
                blocks[-1].append(tok)
            new = []
            for block in blocks:
                if block[0] == "DEFINE":
                    if len(block) < 4 or block[2] != "AS" or block[1] in defs:
                        return None
                    defs[block[1]] = block[3:]
                    continue
                section = None
                for tok in block:
                    if tok in KEYWORDS:
                        section = tok
                        new.append(tok)
                    elif tok in defs:
                        if section not in ("CONDITIONS", "EXTENDERS"):
                            return None
                        new += expand(tok, 0)
                    else:
                        new.append(tok)
            if new:
                files.append(new)
    except ValueError:
        return None
    if not defs or not files:
        return None
    return files


def expected_distances(token_files):
    """ rule name -> (cutoff kb, neighbourhood kb) as written in the (uncorrupted) token lists """
    out = {}
    for toks in token_files:
        name = None
        for i, tok in enumerate(toks[:-1]):
            if tok == "RULE":
                name = toks[i + 1]
                out[name] = [None, None]
            elif tok == "CUTOFF" and name:
                out[name][0] = int(toks[i + 1])
            elif tok == "NEIGHBOURHOOD" and name:
                out[name][1] = int(toks[i + 1])
    return out


def shipped_files():
    base = os.path.join(common.REPO, "antismash", "detection", "hmm_detection")
    texts = []
    for name in ("strict.txt", "relaxed.txt", "loose.txt"):
        path = os.path.join(base, "cluster_rules", name)
        with open(path, encoding="utf-8") as handle:
            texts.append("".join(handle.readlines()))
    return base, texts


def shipped_case():
    """ the three shipped rule files with the real signature names and categories """
    _base, texts = shipped_files()
    from antismash.detection.hmm_detection.signatures import get_signature_profiles
    from antismash.detection.hmm_detection.categories import get_rule_categories
    from antismash.detection.hmm_detection import DYNAMIC_PROFILES
    sigs = sorted({sig.name for sig in get_signature_profiles()} | set(DYNAMIC_PROFILES))
    cats = sorted(cat.name for cat in get_rule_categories())
    return texts, sigs, cats


RULE = ("grammar-directed rule files (1-5 RULE/DEFINE blocks per file, 1-3 files sharing rules and aliases as in create_rules; "
        "conditions of nesting depth 0-6 over not/and/or/groups/cds/minimum/minscore and alias uses incl. alias-in-alias and "
        "aliases defined after their use; DESCRIPTION/EXAMPLE/RELATED/SUPERIORS/EXTENDERS sections; random spaces, tabs, newlines, "
        "\\r\\v\\f and # comments between tokens; dyadic multipliers) with a low rate of built-in ill-formed constructs, "
        "one single-token corruption (delete/duplicate/swap/replace by another token kind) of about half of the files, "
        "the regenerated text of every parsed rule fed back (round trip), the three shipped rule files, and character soup for the "
        "tokeniser; non-trivial = a successful parse with an operator or group in some condition, or a rejected corrupted file; "
        "distinct by flat encoding")


def load_known(prop):
    return {f["class"]: f for f in common.load_known_findings(prop) if f.get("status") == "known"}


def run(chk):
    if not chk.build_and_audit():
        return chk.finish(RULE)
    import time
    chk.extra["t_build_s"] = round(time.time() - chk.t0, 1)
    import tempfile
    import shutil
    gen = Gen(chk.rng)
    rng = chk.rng
    base_files = 6500 if chk.tier == "quick" else 80000
    soup = 4000 if chk.tier == "quick" else 50000
    known = load_known("C02")
    cases, impl_outs = [], []
    names = {1: "Parser/create_rules loop", 2: "Tokeniser"}

    def add_parser_case(files, sigs, cats, mult, label, sample=None):
        flat = [PROP, 1] + [len(files)] + [x for f in files for x in enc_str(f)] + enc_strs(sigs) + enc_strs(cats) + list(mult)
        out, rules = run_parser(files, sigs, cats, mult)
        cases.append(flat)
        impl_outs.append(out)
        chk.count(names[1])
        chk.count(label)
        chk.count(f"files_{len(files)}")
        if out[0] == 1:
            chk.count("error_" + common.ERR_NAME.get(out[1], str(out[1])))
            nontrivial = label.startswith("corrupt")
        else:
            chk.count(f"rules_{min(len(rules), 6)}")
            nontrivial = any(("and" in str(r.conditions)) or ("or" in str(r.conditions)) or ("(" in str(r.conditions)) for r in rules)
        chk.note_case(flat, nontrivial, sample if sample is not None else
                      {"function": names[1], "files": files, "multipliers": list(mult), "implementation": out[:40]})
        return out, rules

    def roundtrip(rule, sigs, cats):
        """ the regenerated text must parse back to the same name, distances and condition meaning """
        from antismash.common.hmm_rule_parser import rule_parser as rp
        text = rule.reconstruct_rule_text()
        if any(ord(ch) > 127 for ch in text):
            return
        out, rules2 = add_parser_case([text], sigs, cats, (1, 1, 1, 1), "roundtrip")
        problem = None
        if rules2 is None or len(rules2) != 1:
            problem = "regenerated text does not parse back to one rule"
        else:
            again = rules2[0]
            whole_kb = rule.cutoff % 1000 == 0 and rule.neighbourhood % 1000 == 0
            if again.name != rule.name or again.category != rule.category:
                problem = "regenerated text parses back to another name or category"
            elif norm(tree_of(again.conditions, rp)) != norm(tree_of(rule.conditions, rp)):
                problem = "regenerated text parses back to conditions with another meaning"
            elif again.description != rule.description or [str(e) for e in again.examples] != [str(e) for e in rule.examples]:
                problem = "regenerated text parses back to another description or other examples"
            elif (again.cutoff, again.neighbourhood) != (rule.cutoff, rule.neighbourhood):
                if whole_kb:
                    problem = "regenerated text parses back to other distances"
                else:
                    chk.count("roundtrip_fractional_kb")
                    if "fractional_kb" in known:
                        chk.known(known["fractional_kb"]["what_fails"])
                    else:
                        problem = "regenerated text loses fractional kilobases (class fractional_kb not listed as known)"
        if is_cds_single_text(text):
            # regression class cds_single_wrapped (repaired): cds((a)) is regenerated as cds((a)); nothing is
            # suppressed, a regenerated text that does not parse back is an ordinary counterexample
            chk.count("roundtrip_cds_single_wrapped")
        if "not (not " in text:
            # regression class double_negation_text / double_negation_wrapped (both repaired): the regenerated text
            # of a doubled negation keeps its parentheses; a failure here is an ordinary counterexample
            chk.count("roundtrip_double_negation")
        if problem:
            chk.violation("counterexample", "round trip: " + problem,
                          {"theorem_or_correspondence": "C02 round trip / DetectionRule.reconstruct_rule_text",
                           "function": 1, "flat": cases[-1], "input": {"rule_text": text, "original": str(rule)},
                           "implementation": out[:60]})
        elif rules2 is not None:
            chk.count("roundtrip_ok")

    def profiles_spec(rules, sigs, flat, files, mult, out):
        """ unknown profile: names in CONDITIONS must be signatures (counterexample otherwise); names in EXTENDERS
            are not checked by the implementation = finding class extenders_unknown_profile """
        from antismash.common.hmm_rule_parser import rule_parser as rp
        problem, ext_problem = check_profiles(rules, sigs, rp)
        if ext_problem and problem is None:
            chk.count("extenders_unknown_profile")
            if "extenders_unknown_profile" in known:
                chk.known(known["extenders_unknown_profile"]["what_fails"])
            else:
                problem = ext_problem + " (class extenders_unknown_profile not listed as known)"
        if problem:
            chk.violation("counterexample", problem,
                          {"theorem_or_correspondence": "C02 specification evaluated on the implementation's output",
                           "function": 1, "flat": flat, "input": {"files": files, "multipliers": list(mult)},
                           "implementation": out[:60]})

    tmpdir = tempfile.mkdtemp(prefix="asv_c02_")
    try:
        # corpus: witnesses of the repaired defects (recursive alias; doubled negation, direct and wrapped in
        # non-negated one-member groups; cds() around a one-member group) and of the scaling class
        corpus = [
            (["DEFINE x AS a or x\nRULE r1 CATEGORY cat CUTOFF 1 NEIGHBOURHOOD 1 CONDITIONS x"], (1, 1, 1, 1)),
            (["DEFINE x AS al2\nDEFINE al2 AS x or a\nRULE r1 CATEGORY cat CUTOFF 1 NEIGHBOURHOOD 1 CONDITIONS x"], (1, 1, 1, 1)),
            (["RULE r1 CATEGORY cat CUTOFF 1 NEIGHBOURHOOD 1 CONDITIONS a and not (not b)"], (1, 1, 1, 1)),
            (["RULE r1 CATEGORY cat CUTOFF 5 NEIGHBOURHOOD 3 CONDITIONS a or b and c"], (3, 2, 1, 2)),
            (["RULE r1 CATEGORY cat CUTOFF 1 NEIGHBOURHOOD 1 CONDITIONS a and not ((not b))"], (1, 1, 1, 1)),
            (["RULE r1 CATEGORY cat CUTOFF 1 NEIGHBOURHOOD 1 CONDITIONS a and not (((not (b or c))))"], (1, 1, 1, 1)),
            (["RULE r1 CATEGORY cat CUTOFF 1 NEIGHBOURHOOD 1 CONDITIONS a and not ((not cds(b and c)))\n"
              "RULE r2 CATEGORY cat CUTOFF 1 NEIGHBOURHOOD 1 CONDITIONS a and not ((not minimum(2, [b, c]))) "
              "or c and not ((not minscore(b, 5)))"], (1, 1, 1, 1)),
            (["RULE r1 CATEGORY cat CUTOFF 5 NEIGHBOURHOOD 5 CONDITIONS a",
              "RULE r2 CATEGORY cat SUPERIORS r1 CUTOFF 5 NEIGHBOURHOOD 5 CONDITIONS b",
              "RULE r3 CATEGORY cat SUPERIORS r2 CUTOFF 5 NEIGHBOURHOOD 5 CONDITIONS c"], (1, 1, 1, 1)),
            (["DEFINE al1 AS a or b\nRULE r1 CATEGORY cat CUTOFF 5 NEIGHBOURHOOD 5 CONDITIONS al1 and c"], (1, 1, 1, 1)),
            (["RULE r1 CATEGORY cat CUTOFF 5 NEIGHBOURHOOD 5 CONDITIONS a#c\n"], (1, 1, 1, 1)),
            # regression: witness of the repaired class cds_single_wrapped (FC02d) and variants - deeper nesting,
            # negated group / negated member, inside EXTENDERS, next to members that keep their own parentheses
            (["RULE r1 CATEGORY cat CUTOFF 1 NEIGHBOURHOOD 1 CONDITIONS b and cds((a))\n"
              "RULE r2 CATEGORY cat CUTOFF 1 NEIGHBOURHOOD 1 CONDITIONS a or not cds((not b))"], (1, 1, 1, 1)),
            (["RULE r1 CATEGORY cat CUTOFF 1 NEIGHBOURHOOD 1 CONDITIONS b and cds(((a))) or c and cds(not (a))\n"
              "RULE r2 CATEGORY cat CUTOFF 1 NEIGHBOURHOOD 1 CONDITIONS a and not cds(not ((not b))) EXTENDERS cds((c))\n"
              "RULE r3 CATEGORY cat CUTOFF 1 NEIGHBOURHOOD 1 CONDITIONS a and cds((minscore(b, 5))) or cds((a and c)) "
              "or cds((a or c)) or d and cds((e)) and cds(e and a)"], (1, 1, 1, 1)),
            # witness of the known class extenders_unknown_profile
            (["RULE r1 CATEGORY cat CUTOFF 1 NEIGHBOURHOOD 1 CONDITIONS a EXTENDERS zz\n"
              "RULE r2 CATEGORY cat CUTOFF 1 NEIGHBOURHOOD 1 CONDITIONS a EXTENDERS cds(unk and b)"], (1, 1, 1, 1)),
        ]
        for files, mult in corpus:
            out, rules = add_parser_case(files, SIGS, CATS, mult, "corpus")
            if rules:
                profiles_spec(rules, SIGS, cases[-1], files, mult, out)
            for rule in rules or []:
                roundtrip(rule, SIGS, CATS)
        # the shipped rule files, through the loop and through the real create_rules
        try:
            texts, sigs, cats = shipped_case()
        except Exception as exc:  # pylint: disable=broad-except
            texts = None
            chk.extra["shipped_files_skipped"] = repr(exc)
        if texts and all(ord(ch) < 128 for t in texts for ch in t):
            out, rules = add_parser_case(texts, sigs, cats, (1, 1, 1, 1), "shipped_files",
                                         sample={"function": names[1], "files": "strict.txt, relaxed.txt, loose.txt",
                                                 "rules": None})
            chk.extra["shipped_rules_parsed"] = len(rules or [])
            for rule in rules or []:
                roundtrip(rule, sigs, cats)
            direct = run_create_rules(texts, sigs, cats, (1, 1, 1, 1), tmpdir)
            n_alias_part = None
            if out[0] == 0 and direct != out[:len(direct)]:
                chk.violation("broken-correspondence", "create_rules on the shipped files differs from the Parser loop",
                              {"theorem_or_correspondence": "create_rules vs Parser loop", "function": 1})
        elif texts:
            chk.extra["shipped_files_skipped"] = "non-ASCII character in a shipped rule file"
        # generated files
        for i in range(base_files):
            state = {"rules": [], "aliases": []}
            nfiles = rng.choice([1, 1, 1, 2, 2, 3])
            token_files = []
            for _ in range(nfiles):
                blocks = gen.file_blocks(state)
                token_files.append([tok for block in blocks for tok in block])
            label = "generated"
            if rng.random() < 0.5:
                k = rng.randrange(nfiles)
                token_files[k], how = gen.corrupt(token_files[k])
                label = "corrupt_" + how
            plain = rng.random() < 0.2
            files = [gen.render(toks, plain) for toks in token_files]
            mult = rng.choice(MULTS) + rng.choice(MULTS)
            out, rules = add_parser_case(files, SIGS, CATS, mult, label)
            spec_problem = None
            if rules:
                from antismash.common.hmm_rule_parser import rule_parser as rp_mod
                spec_problem = check_superiors(rules) or check_conditions(rules, rp_mod)
                if spec_problem is None and label == "generated":
                    expected = expected_distances(token_files)
                    for rule in rules:
                        kbs = expected.get(rule.name)
                        if kbs and None not in kbs and (rule.cutoff, rule.neighbourhood) != (
                                kbs[0] * 1000 * mult[0] // mult[1], kbs[1] * 1000 * mult[2] // mult[3]):
                            spec_problem = (f"rule {rule.name}: CUTOFF {kbs[0]} NEIGHBOURHOOD {kbs[1]} with multipliers "
                                            f"{mult[0]}/{mult[1]}, {mult[2]}/{mult[3]} gives {rule.cutoff}, {rule.neighbourhood}")
            if spec_problem is None and not plain and i % 3 == 0:
                # whitespace and comments are irrelevant: the same tokens separated by single spaces
                out2, _ = run_parser([gen.render(toks, True) for toks in token_files], SIGS, CATS, mult)
                chk.count("whitespace_metamorphic")
                if out2 != out:
                    spec_problem = "the same tokens with other whitespace/comments parse differently"
            if spec_problem is None and rules and label == "generated":
                # DEFINE aliases behave as textual substitution
                substituted = substitute_aliases(token_files)
                if substituted is not None:
                    _out3, rules3 = run_parser([gen.render(toks, True) for toks in substituted], SIGS, CATS, mult)
                    chk.count("alias_substitution_metamorphic")
                    from antismash.common.hmm_rule_parser import rule_parser as rp_mod
                    if rules3 is None or [enc_rule(r, rp_mod) for r in rules3] != [enc_rule(r, rp_mod) for r in rules]:
                        spec_problem = "the text with every alias replaced by its definition parses differently"
            if spec_problem is None and rules:
                profiles_spec(rules, SIGS, cases[-1], files, mult, out)
                spec_problem = check_grammar(token_files)
                chk.count("grammar_recogniser_judged" if spec_problem is None else "grammar_recogniser_rejects")
            if spec_problem:
                chk.violation("counterexample", spec_problem,
                              {"theorem_or_correspondence": "C02 specification evaluated on the implementation's output",
                               "function": 1, "flat": cases[-1], "input": {"files": files, "multipliers": list(mult)},
                               "implementation": out[:60]})
            if rules:
                for rule in rng.sample(rules, min(2, len(rules))):
                    roundtrip(rule, SIGS, CATS)
                if i % 25 == 0:
                    direct = run_create_rules(files, SIGS, CATS, mult, tmpdir)
                    chk.count("create_rules_direct")
                    if direct != out[:len(direct)]:
                        chk.violation("broken-correspondence", "create_rules differs from the Parser loop",
                                      {"theorem_or_correspondence": "create_rules vs Parser loop", "function": 1,
                                       "flat": cases[-1], "input": {"files": files}})
        # tokeniser alone
        for _ in range(soup):
            text = gen.char_soup() if rng.random() < 0.7 else gen.render(gen.conditions(ALIAS_NAMES[:2]))
            flat = [PROP, 2] + enc_str(text)
            out = run_tokeniser(text)
            cases.append(flat)
            impl_outs.append(out)
            chk.count(names[2])
            if out[0] == 1:
                chk.count("tokeniser_error_" + common.ERR_NAME.get(out[1], str(out[1])))
            chk.note_case(flat, out[0] == 0 and out[1] >= 2, {"function": names[2], "text": text, "implementation": out[:30]})
    finally:
        shutil.rmtree(tmpdir, ignore_errors=True)

    def describe(flat):
        if flat[1] == 2:
            return {"text": "".join(chr(c) for c in flat[3:])}
        pos = 2
        nfiles = flat[pos]
        pos += 1
        files = []
        for _ in range(nfiles):
            n = flat[pos]
            files.append("".join(chr(c) for c in flat[pos + 1:pos + 1 + n]))
            pos += 1 + n
        return {"files": files, "multipliers": flat[-4:]}
    import time
    chk.extra["t_impl_s"] = round(time.time() - chk.t0, 1)
    chk.assumptions = [
        "multipliers are dyadic rationals (value * multiplier is exact in double arithmetic; the model computes floor(v*num/den))",
        "ASCII rule text; EXAMPLE ranges made of digits and '-' only (int() of other texts is not modelled)",
        "aliases reach Parser only through the create_rules loop (no cyclic or empty existing_aliases)",
    ]
    model_outs = common.correspondence(chk, cases, impl_outs, describe=describe)
    chk.extra["t_model_s"] = round(time.time() - chk.t0, 1)
    chk.extra["model_out_of_fuel"] = sum(1 for m in model_outs if m[:2] == [1, 11])
    chk.crosscheck_vm(cases, model_outs, k=120 if chk.tier == "quick" else 600)
    # finding F02b (alias_first_token): the generators keep out of the class (a definition that starts with the name of an
    # alias defined later); its recorded witness is replayed on every run
    chk.evaluations += 1
    witness = ("DEFINE y AS q and a DEFINE q AS b RULE r1 CATEGORY cat CUTOFF 1 NEIGHBOURHOOD 1 CONDITIONS c or y")
    try:
        from antismash.common.hmm_rule_parser import rule_parser as _rp
        _rp.Parser(witness, {"a", "b", "c"}, {"cat"})
        reproduced = False          # accepted: textual substitution gives `c or b and a`
    except ValueError as exc:
        reproduced = "without signatures: q" in str(exc)
    except Exception:  # pylint: disable=broad-except
        reproduced = False
    if reproduced:
        if "alias_first_token" in known:
            chk.known(known["alias_first_token"]["what_fails"])
        else:
            chk.violation("counterexample", "class alias_first_token (not listed as known): an alias whose definition starts "
                          "with the name of an alias defined later is not expanded as textual substitution",
                          {"theorem_or_correspondence": "C02 'DEFINE aliases behave as textual substitution', witness",
                           "input": witness})
    return chk.finish(RULE)


def decode_case(flat):
    """ flat encoding of a fn 1 case -> (files, sigs, cats, mult); of a fn 2 case -> text """
    pos = [2]

    def take_str():
        n = flat[pos[0]]
        text = "".join(chr(c) for c in flat[pos[0] + 1:pos[0] + 1 + n])
        pos[0] += 1 + n
        return text

    def take_list():
        n = flat[pos[0]]
        pos[0] += 1
        return [take_str() for _ in range(n)]
    if flat[1] == 2:
        return take_str()
    files, sigs, cats = take_list(), take_list(), take_list()
    return files, sigs, cats, tuple(flat[pos[0]:pos[0] + 4])


def replay(chk, path):
    """ re-runs the recorded case on the current implementation and on the model; exit 1 iff it still violates """
    doc = json.load(open(path))
    flat = doc.get("flat")
    if not flat:
        print("the replay file records no input (broken obligation or correspondence without a case):", doc.get("what"))
        return 1
    model = common.run_driver([flat])[0]
    still = False
    if flat[1] == 2:
        out = run_tokeniser(decode_case(flat))
    else:
        files, sigs, cats, mult = decode_case(flat)
        out, rules = run_parser(files, sigs, cats, mult)
        from antismash.common.hmm_rule_parser import rule_parser as rp
        problem = None
        if rules:
            problem = check_superiors(rules) or check_conditions(rules, rp)
        if problem:
            print("specification violated by the implementation's output:", problem)
            still = True
        if doc.get("what", "").startswith("round trip") and out[0] == 1:
            print("the regenerated text does not parse back:", files[0])
            still = True
        print("files:", files, "multipliers:", mult)
    agree = model == out
    print("implementation:", out[:80])
    print("model:         ", model[:80])
    print("agree:", agree, " recorded kind:", doc.get("kind"), "-", doc.get("what"))
    return 1 if (still or not agree) else 0
