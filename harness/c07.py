"""C07: detection is invariant under origin rotation and rule order.
Metamorphic runs of the real pipeline (detect_protoclusters_and_signatures, dynamic profiles, real parser, then
Record.create_candidate_clusters / create_regions):
 * rotation: protoclusters, candidate clusters and regions of the rotated record must be the rotated ones of the original
   record, with the same kinds, products and member genes; the expected image of every area is computed by the Coq model
   of offset_location (extracted driver);
 * rule order: every permutation of the rule list (of the rule text where the parser admits it, and of the parsed rule
   objects for all n! orders) must give the same protoclusters and definition domains;
 * sub-selection / sanctioned cross-rule effect: the protoclusters of the full ruleset must be the protoclusters of each
   rule run alone, minus those covered by a cluster of a superior rule - computed by the Coq transcription of
   remove_redundant_protoclusters, which C07_redundancy_spec proves equal to the order-free specification."""
import itertools

import common
import detect_util
from common import err_code

PROP = 7
PROFILES = ["a", "b", "c"]

CONDITIONS = ["a", "b", "a and b", "a or c", "cds(a and b)", "a and not c", "minimum(2, [a, b, c])", "c and (a or b)",
              "cds(a or b) and c"]

# regression corpus of the rotation run, used first: (length, genes, rules, hits, rotation).  Witness of the repaired
# finding C07-K1 rotation_origin_spanning_region_sections (after the rotation the region g1-g4 spans the origin and two
# sections of create_regions' sweep overlap it; the unrepaired code merged only the last one and raised ValueError)
ROTATION_CORPUS = [
    (176448,
     [("g0", 0, 90, 1), ("g1", 15090, 15390, 1), ("g2", 15391, 15481, 1), ("g3", 20482, 20572, -1), ("g4", 20622, 21522, 1),
      ("g5", 36522, 36612, -1)],
     ["RULE r0 CATEGORY c CUTOFF 5 NEIGHBOURHOOD 3 CONDITIONS a or c", "RULE r1 CATEGORY c CUTOFF 5 NEIGHBOURHOOD 0 CONDITIONS b"],
     {"g0": {"a"}, "g2": {"a", "b"}, "g3": {"b"}, "g4": {"a", "c"}, "g5": {"a"}},
     155876),
]


# ------------------------------------------------------------------ generators

def gen_record(rng):
    """ circular record whose genes sit in the first part of the record, so that no region reaches half of it """
    n_genes = rng.choice([2, 3, 4, 5, 6, 8])
    cutoffs = [rng.choice([1, 2, 5]) * 1000 for _ in range(rng.choice([1, 2, 2, 3]))]
    genes = []
    pos = rng.choice([0, 100, 1500, 4000])
    for i in range(n_genes):
        length = rng.choice([90, 300, 900, 2400])
        start, end = pos, pos + length
        genes.append((f"g{i}", start, end, rng.choice([1, -1])))
        cutoff = rng.choice(cutoffs)
        pos = end + rng.choice([1, 50, cutoff - 1, cutoff, cutoff + 1, cutoff + 700, 3 * cutoff])
    span = genes[-1][2]
    length = span * rng.choice([3, 4, 6]) + rng.choice([0, 1, 999, 20000]) + 30000
    rules = []
    names = []
    for i, cutoff in enumerate(cutoffs):
        nb = rng.choice([0, 1, 3, 5]) * 1000
        cond = rng.choice(CONDITIONS)
        superiors = ""
        if i > 0 and rng.random() < 0.3:
            superiors = f" SUPERIORS {rng.choice(names)}"
        rules.append(f"RULE r{i} CATEGORY c{superiors} CUTOFF {cutoff // 1000} NEIGHBOURHOOD {nb // 1000} CONDITIONS {cond}")
        names.append(f"r{i}")
    hits = {}
    for name, _, _, _ in genes:
        profs = {p for p in "abc" if rng.random() < 0.45}
        if profs:
            hits[name] = profs
    return length, genes, rules, hits


def gen_chain_record(rng):
    """ 3-4 rules forming SUPERIORS chains (r2 < r1 < r0, side branches, unrelated rules), each rule anchored on its own
        profile so that clusters of different rules overlap partially, cover each other or just miss each other;
        linear or circular record, genes in the first third -> (length, circular, genes, rules, profiles, hits) """
    n_rules = rng.choice([3, 3, 4])
    profiles = [f"p{i}" for i in range(n_rules)] + ["x"]
    rules = []
    for i in range(n_rules):
        sups = []
        if i > 0:
            if rng.random() < 0.75:
                sups = [f"r{i - 1}"]
            else:
                sups = [f"r{j}" for j in range(i) if rng.random() < 0.4]
        sup = (" SUPERIORS " + ", ".join(sups)) if sups else ""
        cutoff = rng.choice([1, 1, 2, 5])
        nb = rng.choice([0, 1, 3])
        cond = rng.choice([f"p{i}"] * 4 + [f"p{i} or x", f"cds(p{i} and x)", f"p{i} and x", f"p{i} and not x"])
        rules.append(f"RULE r{i} CATEGORY c{sup} CUTOFF {cutoff} NEIGHBOURHOOD {nb} CONDITIONS {cond}")
    n_genes = rng.choice([2, 3, 4, 5, 6, 8])
    genes = []
    pos = rng.choice([0, 100, 1500, 4000])
    for i in range(n_genes):
        size = rng.choice([90, 300, 900, 2400])
        genes.append((f"g{i}", pos, pos + size, rng.choice([1, -1])))
        pos = pos + size + rng.choice([1, 50, 200, 200, 700, 999, 1000, 1001, 1700, 2100, 6000])
    length = genes[-1][2] * rng.choice([3, 4, 6]) + 30000
    hits = {}
    for name, _, _, _ in genes:
        profs = {p for p in profiles if rng.random() < (0.3 if p == "x" else 0.45)}
        if profs:
            hits[name] = profs
    if rng.random() < 0.25 and n_genes >= 2:
        # the bridging layout: a middle-rule cluster over two genes, overlapping a cluster of its superior on one gene
        # and covering a cluster of its inferior on the other, which the superior's cluster does not touch
        i = rng.randrange(n_genes - 1)
        low, top = (i, i + 1) if rng.random() < 0.5 else (i + 1, i)
        hits[genes[low][0]] = {"p1", "p2"}
        hits[genes[top][0]] = {"p0", "p1"}
    return length, rng.random() < 0.5, genes, rules, profiles, hits


def superiors_first(rules):
    """ the parser requires a superior to be defined before the rule naming it """
    seen = set()
    for text in rules:
        words = text.replace(",", " ").split()
        if "SUPERIORS" in words:
            for name in words[words.index("SUPERIORS") + 1:words.index("CUTOFF")]:
                if name not in seen:
                    return False
        seen.add(words[1])
    return True


def rotate_genes(genes, length, k):
    """ -> rotated gene list, or None when the new origin would cut a gene """
    out = []
    for name, s, e, strand in genes:
        ns, ne = (s + k) % length, (e - 1 + k) % length + 1
        if ns >= ne:
            return None
        out.append((name, ns, ne, strand))
    return out


# ------------------------------------------------------------------ running the implementation

def parse_rules(rules, profiles):
    from antismash.common.hmm_rule_parser import rule_parser
    return rule_parser.Parser("\n".join(rules), set(profiles), {"c"}).rules


def ruleset_from_objects(rule_objects, profiles, hits):
    """ a ruleset listing the already parsed rules in the given order """
    from antismash.common.hmm_rule_parser.structures import DynamicProfile, DynamicHit
    from antismash.common.hmm_rule_parser.test.helpers import create_ruleset

    def mk(profile):
        def detect(_record, _hmmer_hits):
            return {gene: [DynamicHit(gene, profile)] for gene, profs in hits.items() if profile in profs}
        return DynamicProfile(profile, "d", detect)
    return create_ruleset(tuple(rule_objects), dynamic_profiles={p: mk(p) for p in profiles})


def names_within(record, location):
    return tuple(sorted(cds.get_name() for cds in record.get_cds_features_within_location(location)))


def run_pipeline(length, genes, rules, hits, circular=True, profiles=PROFILES, objects=None, areas=False):
    """ rules: rule text lines (parsed here), or objects: parsed rules in the order to use.
        -> protoclusters, definition domains [, candidate clusters, regions] """
    record = detect_util.make_record(length, circular, [(n, [(s, e, st)]) for n, s, e, st in genes])
    if objects is None:
        ruleset = detect_util.make_ruleset("\n".join(rules), list(profiles), hits)
    else:
        ruleset = ruleset_from_objects(objects, profiles, hits)
    result = detect_util.detect(record, ruleset)
    parts = detect_util.loc_parts
    protos = sorted((p.product, tuple(parts(p.core_location)), tuple(parts(p.location)))
                    for p in result.protoclusters)
    domains = []
    for proto, cds_results in result.cds_by_cluster.items():
        key = (proto.product, tuple(parts(proto.core_location)))
        for res in cds_results:
            domains.append((key, res.cds.get_name(),
                            tuple(sorted((rule, tuple(sorted(doms))) for rule, doms in res.definition_domains.items()))))
    for res in result.cdses_outside_clusters:
        domains.append((("outside",), res.cds.get_name(),
                        tuple(sorted((rule, tuple(sorted(doms))) for rule, doms in res.definition_domains.items()))))
    domains.sort()
    if not areas:
        return protos, domains
    members = sorted((p.product, tuple(parts(p.core_location)), names_within(record, p.core_location),
                      names_within(record, p.location)) for p in result.protoclusters)
    for proto in result.protoclusters:
        record.add_protocluster(proto)
    record.create_candidate_clusters()
    cands = sorted((str(c.kind), tuple(sorted(p.product for p in c.protoclusters)), tuple(parts(c.location)),
                    names_within(record, c.location)) for c in record.get_candidate_clusters())
    record.create_regions()
    regions = sorted((tuple(sorted(r.products)), tuple(parts(r.location)), names_within(record, r.location),
                      tuple(sorted(tuple(parts(c.location)) for c in r.candidate_clusters)))
                     for r in record.get_regions())
    return protos, domains, members, cands, regions


def enc_parts(parts):
    out = [len(parts)]
    for s, e in parts:
        out += [s, e, 1]
    return out


RULE = ("(A) rule order: linear and circular records, 2-8 genes with gaps around the cutoffs, 3-4 rules forming SUPERIORS "
        "chains/branches (each rule anchored on its own profile, 8 condition shapes, own cutoff and neighbourhood; a quarter of "
        "the records carry the bridging layout low < mid < top where mid overlaps top and covers low), parsed by the real "
        "parser: up to 4 admissible permutations of the rule text, up to 6 of the n! orders of the parsed rules (always the "
        "reversed one), every rule run alone + Coq removal of covered clusters compared with the full run; plus the "
        "permutations of the 1-3 rule records of (B).  (B) rotation: circular records (genes in the first third, 2-8 genes, "
        "1-3 rules from 9 condition shapes incl. and/or/not/cds/minimum, no SUPERIORS), up to 6 rotations that cut no gene "
        "(incl. ones that make a protocluster, candidate or region span the new origin): protoclusters, candidate clusters "
        "(kind, products, members) and regions (products, members, candidates) compared with the Coq-rotated base areas.  "
        "Non-trivial = the base run reports at least one protocluster; distinct by (record, rotation | permutation)")


# ------------------------------------------------------------------ rule order

def check_orders(chk, rng, length, circular, genes, rules, profiles, hits, base, object_orders=True):
    """ base = (protoclusters, domains) of the rules as listed """
    info = {"length": length, "circular": circular, "genes": genes, "hits": {k: sorted(v) for k, v in hits.items()},
            "rules": rules, "profiles": list(profiles)}
    perms = [p for p in list(itertools.permutations(rules))[1:] if superiors_first(p)]
    rng.shuffle(perms)
    for perm in perms[:4]:
        chk.evaluations += 1
        chk.count("rule_text_permutations")
        try:
            got = run_pipeline(length, genes, list(perm), hits, circular, profiles)
        except Exception as exc:  # pylint: disable=broad-except
            got = ("error", type(exc).__name__)
        if got != base:
            chk.violation("counterexample", "detection depends on the order of the rules",
                          {"theorem_or_correspondence": "C07_rule_order / detect_protoclusters_and_signatures",
                           "input": dict(info, permuted=list(perm)), "base": list(base), "permuted_result": got})
            return False
    if not object_orders:
        return True
    objects = parse_rules(rules, profiles)
    orders = list(itertools.permutations(range(len(objects))))[1:]
    reverse = orders[-1]
    rng.shuffle(orders)
    chosen = [reverse] + [o for o in orders if o != reverse][:5]
    for order in chosen:
        chk.evaluations += 1
        chk.count("rule_object_permutations")
        try:
            got = run_pipeline(length, genes, None, hits, circular, profiles, objects=[objects[i] for i in order])
        except Exception as exc:  # pylint: disable=broad-except
            got = ("error", type(exc).__name__)
        if got != base:
            chk.violation("counterexample", "detection depends on the order in which the (parsed) rules are listed",
                          {"theorem_or_correspondence": "C07_rule_order, C07_redundancy_order / detect_protoclusters_and_signatures",
                           "input": dict(info, rule_order=[objects[i].name for i in order]), "base": list(base),
                           "permuted_result": got})
            return False
    return True


def solo_case(length, circular, genes, rules, profiles, hits):
    """ every rule run alone (the parsed rule keeps its SUPERIORS list) -> flat case for the Coq removal, and the
        clusters by (rule, core) """
    objects = parse_rules(rules, profiles)
    index = {rule.name: i for i, rule in enumerate(objects)}
    clusters = []
    for rule in objects:
        protos, _ = run_pipeline(length, genes, None, hits, circular, profiles, objects=[rule])
        clusters.extend(protos)
    flat = [PROP, 2, len(objects)]
    for rule in objects:
        flat += [index[rule.name], len(rule.superiors)] + [index[name] for name in rule.superiors]
    flat.append(len(clusters))
    usable = True
    for product, core, _ in clusters:
        inside = [i for i, (_, s, e, _) in enumerate(genes) if any(ps <= s and e <= pe for ps, pe in core)]
        if len(core) != 1 or not inside:
            usable = False
            break
        flat += [index[product]] + enc_parts(core) + [inside[0], inside[-1]]
    return (flat if usable else None), clusters, [rule.name for rule in objects]


def decode_kept(model, names):
    """ model output of fn 2: n, then per cluster: rule nparts (s e strand)* first last """
    pos = 1
    out = []
    for _ in range(model[0]):
        rule, nparts = model[pos], model[pos + 1]
        pos += 2
        parts = []
        for _ in range(nparts):
            parts.append((model[pos], model[pos + 1]))
            pos += 3
        pos += 2
        out.append((names[rule], tuple(parts)))
    return out


# ------------------------------------------------------------------ the run

def run(chk):
    if not chk.build_and_audit():
        return chk.finish(RULE)
    rng = chk.rng
    quick = chk.tier == "quick"

    # ---- (A) rule order, sub-selection and the sanctioned removal of covered clusters
    solo_cases, solo_meta = [], []
    order_violations = 0
    for _ in range(450 if quick else 6000):
        length, circular, genes, rules, profiles, hits = gen_chain_record(rng)
        try:
            base = run_pipeline(length, genes, rules, hits, circular, profiles)
        except Exception as exc:  # pylint: disable=broad-except
            chk.count("base_error_" + type(exc).__name__)
            continue
        chk.count("chain_records")
        if order_violations < 3 and not check_orders(chk, rng, length, circular, genes, rules, profiles, hits, base):
            order_violations += 1
        flat, clusters, names = solo_case(length, circular, genes, rules, profiles, hits)
        if flat is None:
            chk.count("solo_not_encodable")
            continue
        solo_cases.append(flat)
        solo_meta.append({"length": length, "circular": circular, "genes": genes, "rules": rules, "profiles": profiles,
                          "hits": {k: sorted(v) for k, v in hits.items()}, "clusters_of_rules_run_alone": clusters,
                          "full_run": base[0], "names": names})
        chk.note_case(flat, len(clusters) > 0, solo_meta[-1] if len(chk.samples) < 2 else None)
    kept_outs = common.run_driver(solo_cases)
    chk.crosscheck_vm(solo_cases, kept_outs, k=60 if quick else 300)
    removal_mismatches = removed_total = 0
    for flat, model, info in zip(solo_cases, kept_outs, solo_meta):
        kept = sorted(decode_kept(model, info["names"]))
        full_of = {(p, core): full for p, core, full in info["clusters_of_rules_run_alone"]}
        want = sorted((p, core, full_of[(p, core)]) for p, core in kept)
        removed_total += len(info["clusters_of_rules_run_alone"]) - len(kept)
        if want != info["full_run"]:
            removal_mismatches += 1
            if removal_mismatches <= 2:
                chk.violation("counterexample", "the protoclusters of the full ruleset are not those of each rule run alone minus "
                              "the ones covered by a cluster of a superior rule",
                              {"theorem_or_correspondence": "C07_redundancy_spec, C07_rule_subselection / "
                                                            "detect_protoclusters_and_signatures",
                               "input": info, "expected_by_specification": want, "implementation": info["full_run"],
                               "flat": flat})
    chk.extra["removal_mismatches"] = removal_mismatches
    chk.count("clusters_removed_as_covered_by_superior", removed_total)

    # ---- (B) rotation (and the rule order of these records)
    cases, impl_outs, meta = [], [], []
    corpus = list(ROTATION_CORPUS)
    for _ in range(450 if quick else 7000):
        forced = None
        if corpus:
            length, genes, rules, hits, forced = corpus.pop(0)
            chk.count("rotation_corpus_records")
        else:
            length, genes, rules, hits = gen_record(rng)
        try:
            base, base_domains, members, cands, regions = run_pipeline(length, genes, rules, hits, areas=True)
        except Exception as exc:  # pylint: disable=broad-except
            chk.count("base_error_" + type(exc).__name__)
            continue
        chk.count("records")
        nontrivial = len(base) > 0
        if len(rules) > 1 and order_violations < 3:
            if not check_orders(chk, rng, length, True, genes, rules, PROFILES, hits, (base, base_domains),
                                object_orders=False):
                order_violations += 1
        candidates = set()
        for _, s, e, _ in genes:
            candidates.update([(-s) % length, (-e) % length, (-s + 1) % length, (-e - 1) % length])
        for _, core, full in base:
            for s, e in core + full:
                candidates.update([(-s) % length, (-e) % length, (-(s + e) // 2) % length])
        for parts in [c[2] for c in cands] + [r[1] for r in regions]:
            for s, e in parts:
                candidates.update([(-s) % length, (-e) % length])
        candidates.update(rng.randrange(length) for _ in range(3))
        ks = [k for k in sorted(candidates) if k and rotate_genes(genes, length, k) is not None]
        if any("SUPERIORS" in rule for rule in rules):
            # recorded finding rotation_superior_partial_overlap: rules with superiors are only used for the rule-order runs
            chk.count("records_with_superiors_not_rotated")
            ks = []
        rng.shuffle(ks)
        if forced is not None:
            ks = [forced] + [k for k in ks if k != forced]
        for k in ks[:6]:
            rotated = rotate_genes(genes, length, k)
            try:
                out = run_pipeline(length, rotated, rules, hits, areas=True)
                out = (out[0], out[2], out[3], out[4])
            except Exception as exc:  # pylint: disable=broad-except
                out = ("error", type(exc).__name__, str(exc))
            locs = []
            for _, core, full in base:
                locs += [core, full]
            locs += [c[2] for c in cands] + [r[1] for r in regions]
            for region in regions:
                locs += list(region[3])
            flat = [PROP, 1, length, k, len(locs)]
            for loc in locs:
                flat += enc_parts(loc)
            cases.append(flat)
            impl_outs.append(out)
            meta.append({"length": length, "genes": genes, "hits": {g: sorted(v) for g, v in hits.items()}, "rules": rules,
                         "rotation": k, "base": base, "base_members": members, "base_candidates": cands,
                         "base_regions": regions})
            chk.count("rotations")
            chk.note_case(flat, nontrivial, meta[-1] if len(chk.samples) < 4 else None)
    # expected image of every base area under each rotation, from the Coq model
    model_outs = common.run_driver(cases)
    chk.crosscheck_vm(cases, model_outs, k=100 if quick else 600)
    mismatches = 0
    for flat, model, got, info in zip(cases, model_outs, impl_outs, meta):
        expected = decode_expected(model, info)
        if expected is None:
            chk.count("model_rotation_error")
            continue
        if got[0] == "error":
            have = got          # no class of failing rotations is recorded (C07-K1 is repaired): a violation below
        else:
            have = tuple(sorted(x) for x in got)
        if tuple(expected) != have:
            mismatches += 1
            if mismatches <= 3:
                level = next((name for name, w, h in zip(("protoclusters", "protocluster members", "candidate clusters",
                                                           "regions"), expected, have) if w != h), "run")
                if got[0] == "error":
                    level = f"the run on the rotated record raised {got[1]}: {got[2]}; results"
                chk.violation("counterexample", f"detection is not invariant under rotation of the origin ({level} differ)",
                              {"theorem_or_correspondence": "C07_rotation_pipeline / detect_protoclusters_and_signatures, "
                                                            "create_candidate_clusters, create_regions",
                               "input": info, "expected_rotated": expected, "implementation_on_rotated_record": have,
                               "flat": flat})
    chk.extra["rotation_mismatches"] = mismatches
    known_findings(chk)
    return chk.finish(RULE, trusted_extra=["the rotation of the gene coordinates is done by the harness (rotate_genes); the expected "
                                           "image of the areas is computed by the Coq model of offset_location",
                                           "the positions of the first/last core CDS handed to the Coq removal are computed by "
                                           "the harness from the gene list (genes of these records do not overlap)"])


def known_findings(chk):
    """ recorded, unrepaired defects: printed only while the stored witness still reproduces """
    for finding in common.load_known_findings("C07"):
        if finding["status"] != "known":
            continue
        w = finding["witness"]
        genes = [tuple(g) for g in w["genes"]]
        hits = {k: set(v) for k, v in w["hits"].items()}
        rotated = rotate_genes(genes, w["length"], w["rotation"])
        if finding["class"] == "rotation_superior_partial_overlap":
            try:
                base, _ = run_pipeline(w["length"], genes, w["rules"], hits)
                got, _ = run_pipeline(w["length"], rotated, w["rules"], hits)
            except Exception:  # pylint: disable=broad-except
                continue
            if len(got) != len(base):
                chk.known(finding["what_fails"])


def decode_expected(model, info):
    """ model output: n, then per loc: 0 nparts (s e strand)* | 1 kind
        -> expected (protoclusters, members, candidates, regions) on the rotated record """
    pos = 1
    locs = []
    for _ in range(model[0]):
        if model[pos] != 0:
            return None
        n = model[pos + 1]
        parts = []
        pos += 2
        for _ in range(n):
            parts.append((model[pos], model[pos + 1]))
            pos += 3
        locs.append(tuple(parts))
    base, members, cands, regions = info["base"], info["base_members"], info["base_candidates"], info["base_regions"]
    rotated_core = {}
    protos = []
    for i, (product, core, _) in enumerate(base):
        protos.append((product, locs[2 * i], locs[2 * i + 1]))
        rotated_core[(product, core)] = locs[2 * i]
    at = 2 * len(base)
    new_members = [(product, rotated_core[(product, core)], inner, outer) for product, core, inner, outer in members]
    new_cands = [(kind, products, locs[at + i], names) for i, (kind, products, _, names) in enumerate(cands)]
    at += len(cands)
    region_locs = locs[at:at + len(regions)]
    at += len(regions)
    new_regions = []
    for (products, _, names, children), loc in zip(regions, region_locs):
        new_regions.append((products, loc, names, tuple(sorted(locs[at:at + len(children)]))))
        at += len(children)
    return sorted(protos), sorted(new_members), sorted(new_cands), sorted(new_regions)


def replay(chk, path):
    import json
    doc = json.load(open(path))
    info = doc["input"]
    genes = [tuple(g) for g in info["genes"]]
    hits = {k: set(v) for k, v in info["hits"].items()}
    if "rotation" in info:
        rotated = rotate_genes(genes, info["length"], info["rotation"])
        try:
            print("implementation on rotated record:", run_pipeline(info["length"], rotated, info["rules"], hits, areas=True))
        except Exception as exc:  # pylint: disable=broad-except
            print("implementation on rotated record raises", type(exc).__name__, exc)
        print("expected:", doc.get("expected_rotated"))
        return 0
    profiles = info.get("profiles", PROFILES)
    circular = info.get("circular", True)
    print("rules as listed:", run_pipeline(info["length"], genes, info["rules"], hits, circular, profiles)[0])
    if "permuted" in info:
        print("permuted text:", run_pipeline(info["length"], genes, info["permuted"], hits, circular, profiles)[0])
    elif "rule_order" in info:
        objects = {rule.name: rule for rule in parse_rules(info["rules"], profiles)}
        print("rule order", info["rule_order"], ":",
              run_pipeline(info["length"], genes, None, hits, circular, profiles,
                           objects=[objects[name] for name in info["rule_order"]])[0])
    else:
        print("each rule alone:", info.get("clusters_of_rules_run_alone"))
        print("expected by the specification:", doc.get("expected_by_specification"))
    return 0
