"""C07: detection is invariant under origin rotation and rule order.
Metamorphic runs of the real pipeline (detect_protoclusters_and_signatures, dynamic profiles, real parser):
 * rotation: protoclusters of the rotated record must be the rotated protoclusters of the original record; the
   expected image of every area is computed by the Coq model of offset_location (extracted driver);
 * rule order: every permutation of the rule list must give the same protoclusters and definition domains."""
import itertools

import common
import detect_util
from common import err_code

PROP = 7

CONDITIONS = ["a", "b", "a and b", "a or c", "cds(a and b)", "a and not c", "minimum(2, [a, b, c])", "c and (a or b)",
              "cds(a or b) and c"]


def gen_record(rng):
    """ circular record whose genes sit in the first part of the record, so that no region reaches half of it """
    n_genes = rng.choice([2, 3, 4, 5, 6, 8])
    cutoffs = [rng.choice([1, 2, 5]) * 1000 for _ in range(rng.choice([1, 2, 2, 3]))]
    genes = []
    pos = rng.choice([0, 100, 1500, 4000])
    for i in range(n_genes):
        length = rng.choice([90, 300, 900, 2400])
        start, end = pos, pos + length
        genes.append((f"g{i}", start, end, rng.choice([1, -1])))
        cutoff = rng.choice(cutoffs)
        pos = end + rng.choice([1, 50, cutoff - 1, cutoff, cutoff + 1, cutoff + 700, 3 * cutoff])
    span = genes[-1][2]
    length = span * rng.choice([3, 4, 6]) + rng.choice([0, 1, 999, 20000]) + 30000
    rules = []
    names = []
    for i, cutoff in enumerate(cutoffs):
        nb = rng.choice([0, 1, 3, 5]) * 1000
        cond = rng.choice(CONDITIONS)
        superiors = ""
        if i > 0 and rng.random() < 0.3:
            superiors = f" SUPERIORS {rng.choice(names)}"
        rules.append(f"RULE r{i} CATEGORY c{superiors} CUTOFF {cutoff // 1000} NEIGHBOURHOOD {nb // 1000} CONDITIONS {cond}")
        names.append(f"r{i}")
    hits = {}
    for name, _, _, _ in genes:
        profs = {p for p in "abc" if rng.random() < 0.45}
        if profs:
            hits[name] = profs
    return length, genes, rules, hits


def superiors_first(rules):
    """ the parser requires a superior to be defined before the rule naming it """
    seen = set()
    for text in rules:
        words = text.split()
        if "SUPERIORS" in words and words[words.index("SUPERIORS") + 1] not in seen:
            return False
        seen.add(words[1])
    return True


def rotate_genes(genes, length, k):
    """ -> rotated gene list, or None when the new origin would cut a gene """
    out = []
    for name, s, e, strand in genes:
        ns, ne = (s + k) % length, (e - 1 + k) % length + 1
        if ns >= ne:
            return None
        out.append((name, ns, ne, strand))
    return out


def run_pipeline(length, genes, rules, hits):
    record = detect_util.make_record(length, True, [(n, [(s, e, st)]) for n, s, e, st in genes])
    ruleset = detect_util.make_ruleset("\n".join(rules), ["a", "b", "c"], hits)
    result = detect_util.detect(record, ruleset)
    protos = sorted((p.product, tuple(detect_util.loc_parts(p.core_location)), tuple(detect_util.loc_parts(p.location)))
                    for p in result.protoclusters)
    domains = []
    for proto, cds_results in result.cds_by_cluster.items():
        key = (proto.product, tuple(detect_util.loc_parts(proto.core_location)))
        for res in cds_results:
            domains.append((key, res.cds.get_name(),
                            tuple(sorted((rule, tuple(sorted(doms))) for rule, doms in res.definition_domains.items()))))
    for res in result.cdses_outside_clusters:
        domains.append((("outside",), res.cds.get_name(),
                        tuple(sorted((rule, tuple(sorted(doms))) for rule, doms in res.definition_domains.items()))))
    domains.sort()
    return protos, domains


def enc_parts(parts):
    out = [len(parts)]
    for s, e in parts:
        out += [s, e, 1]
    return out


RULE = ("circular records (genes in the first third, 2-8 genes, gaps on the cutoffs), 1-3 rules drawn from 9 condition shapes "
        "(and/or/not/cds/minimum) with own cutoff, neighbourhood and optional SUPERIORS, parsed by the real parser; for each record "
        "up to 6 rotations that cut no gene (incl. rotations that make a protocluster span the new origin) and up to 6 "
        "permutations of the rule list.  Non-trivial = the base run reports at least one protocluster; distinct by (record, "
        "rotation | permutation)")


def run(chk):
    if not chk.build_and_audit():
        return chk.finish(RULE)
    rng = chk.rng
    n_records = 800 if chk.tier == "quick" else 12000
    cases, impl_outs, meta = [], [], []
    for _ in range(n_records):
        length, genes, rules, hits = gen_record(rng)
        try:
            base, base_domains = run_pipeline(length, genes, rules, hits)
        except Exception as exc:  # pylint: disable=broad-except
            chk.count("base_error_" + type(exc).__name__)
            continue
        chk.count("records")
        nontrivial = len(base) > 0
        # ---- rule order
        if len(rules) > 1:
            perms = [p for p in list(itertools.permutations(rules))[1:] if superiors_first(p)]
            rng.shuffle(perms)
            for perm in perms[:6]:
                chk.evaluations += 1
                chk.count("rule_permutations")
                try:
                    got = run_pipeline(length, genes, list(perm), hits)
                except Exception as exc:  # pylint: disable=broad-except
                    got = ("error", type(exc).__name__)
                if got != (base, base_domains):
                    chk.violation("counterexample", "detection depends on the order of the rules",
                                  {"theorem_or_correspondence": "C07_rule_order / detect_protoclusters_and_signatures",
                                   "input": {"length": length, "genes": genes, "hits": {k: sorted(v) for k, v in hits.items()},
                                             "rules": rules, "permuted": list(perm)},
                                   "base": [base, base_domains], "permuted_result": got})
        # ---- rotation
        candidates = set()
        for _, s, e, _ in genes:
            candidates.update([(-s) % length, (-e) % length, (-s + 1) % length, (-e - 1) % length])
        for product, core, full in base:
            for s, e in core + full:
                candidates.update([(-s) % length, (-e) % length, (-(s + e) // 2) % length])
        candidates.update(rng.randrange(length) for _ in range(3))
        ks = [k for k in sorted(candidates) if k and rotate_genes(genes, length, k) is not None]
        if any("SUPERIORS" in rule for rule in rules):
            # recorded finding rotation_superior_partial_overlap: rules with superiors are only used for the rule-order runs
            chk.count("records_with_superiors_not_rotated")
            ks = []
        rng.shuffle(ks)
        for k in ks[:6]:
            rotated = rotate_genes(genes, length, k)
            try:
                got, _ = run_pipeline(length, rotated, rules, hits)
                out = []
                for product, core, full in got:
                    out.append((product, list(core), list(full)))
            except Exception as exc:  # pylint: disable=broad-except
                out = [("error", err_code(exc), type(exc).__name__)]
            flat = [PROP, 1, length, k, 2 * len(base)]
            for product, core, full in base:
                flat += enc_parts(core) + enc_parts(full)
            cases.append(flat)
            impl_outs.append(out)
            meta.append({"length": length, "genes": genes, "hits": {g: sorted(v) for g, v in hits.items()}, "rules": rules,
                         "rotation": k, "base": base})
            chk.count("rotations")
            chk.note_case(flat, nontrivial, meta[-1] if len(chk.samples) < 3 else None)
    # expected image of every base area under each rotation, from the Coq model
    model_outs = common.run_driver(cases)
    chk.crosscheck_vm(cases, model_outs, k=100 if chk.tier == "quick" else 600)
    mismatches = 0
    for flat, model, got, info in zip(cases, model_outs, impl_outs, meta):
        expected = decode_expected(model, info["base"])
        if expected is None:
            chk.count("model_rotation_error")
            continue
        want = sorted(expected)
        have = sorted((p, tuple(c), tuple(f)) for p, c, f in got) if not (got and got[0][0] == "error") else got
        if want != have:
            mismatches += 1
            if mismatches <= 3:
                chk.violation("counterexample", "detection is not invariant under rotation of the origin",
                              {"theorem_or_correspondence": "C07_rotation_pipeline / detect_protoclusters_and_signatures",
                               "input": info, "expected_rotated": want, "implementation_on_rotated_record": have, "flat": flat})
    chk.extra["rotation_mismatches"] = mismatches
    known_findings(chk)
    return chk.finish(RULE, trusted_extra=["the rotation of the gene coordinates is done by the harness (rotate_genes); the expected "
                                           "image of the areas is computed by the Coq model of offset_location"])


def known_findings(chk):
    """ recorded, unrepaired defects: printed only while the stored witness still reproduces """
    for finding in common.load_known_findings("C07"):
        if finding["status"] != "known" or finding["class"] != "rotation_superior_partial_overlap":
            continue
        w = finding["witness"]
        genes = [tuple(g) for g in w["genes"]]
        hits = {k: set(v) for k, v in w["hits"].items()}
        try:
            base, _ = run_pipeline(w["length"], genes, w["rules"], hits)
            got, _ = run_pipeline(w["length"], rotate_genes(genes, w["length"], w["rotation"]), w["rules"], hits)
        except Exception:  # pylint: disable=broad-except
            continue
        if len(got) != len(base):
            chk.known(finding["what_fails"])


def decode_expected(model, base):
    """ model output: n, then per loc: 0 nparts (s e strand)* | 1 kind """
    pos = 1
    locs = []
    for _ in range(model[0]):
        if model[pos] != 0:
            return None
        n = model[pos + 1]
        parts = []
        pos += 2
        for _ in range(n):
            parts.append((model[pos], model[pos + 1]))
            pos += 3
        locs.append(tuple(parts))
    return [(product, locs[2 * i], locs[2 * i + 1]) for i, (product, _, _) in enumerate(base)]


def replay(chk, path):
    import json
    doc = json.load(open(path))
    info = doc["input"]
    if "rotation" in info:
        rotated = rotate_genes([tuple(g) for g in info["genes"]], info["length"], info["rotation"])
        print("implementation on rotated record:", run_pipeline(info["length"], rotated, info["rules"],
                                                                 {k: set(v) for k, v in info["hits"].items()})[0])
        print("expected:", doc.get("expected_rotated"))
    else:
        print(run_pipeline(info["length"], [tuple(g) for g in info["genes"]], info["permuted"], {k: set(v) for k, v in info["hits"].items()}))
    return 0
