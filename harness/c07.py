"""C07: detection is invariant under origin rotation and rule order.
Metamorphic runs of the real pipeline (detect_protoclusters_and_signatures, dynamic profiles, real parser, then
Record.create_candidate_clusters / create_regions):
 * rotation: protoclusters, candidate clusters and regions of the rotated record must be the rotated ones of the original
   record, with the same kinds, products and member genes; the expected image of every area is computed by the Coq model
   of offset_location (extracted driver);
 * rule order: every permutation of the rule list (of the rule text where the parser admits it, and of the parsed rule
   objects for all n! orders) must give the same protoclusters and definition domains;
 * sub-selection / sanctioned cross-rule effect: the protoclusters of the full ruleset must be the protoclusters of each
   rule run alone, minus those covered by a cluster of a superior rule - computed by the Coq transcription of
   remove_redundant_protoclusters, which C07_redundancy_spec proves equal to the order-free specification;
 * rotation through spliced genes: multi-exon core genes on both strands, the new origin inside an exon (one side of
   the origin then holds two or more parts of the gene);
 * histories of hmm_detection.get_ruleset(): sequences of different selections (names, categories, strictness, taxon,
   multipliers) in one process; after EVERY call every ruleset handed out so far must hold the selected rules with
   distances = written distance * its own multipliers (independent oracle from a fresh parse of the rule files) and
   must equal the Coq model of get_ruleset / Ruleset / create_rules with its object store (C07_get_ruleset_history_
   independent); detection with a sub-selected ruleset = each selected rule run alone minus the Coq removal."""
import contextlib
import itertools

import common
import detect_util
from common import err_code

PROP = 7
PROFILES = ["a", "b", "c"]

CONDITIONS = ["a", "b", "a and b", "a or c", "cds(a and b)", "a and not c", "minimum(2, [a, b, c])", "c and (a or b)",
              "cds(a or b) and c"]

# regression corpus of the rotation run, used first: (length, genes, rules, hits, rotation).  Witness of the repaired
# finding C07-K1 rotation_origin_spanning_region_sections (after the rotation the region g1-g4 spans the origin and two
# sections of create_regions' sweep overlap it; the unrepaired code merged only the last one and raised ValueError)
ROTATION_CORPUS = [
    (176448,
     [("g0", 0, 90, 1), ("g1", 15090, 15390, 1), ("g2", 15391, 15481, 1), ("g3", 20482, 20572, -1), ("g4", 20622, 21522, 1),
      ("g5", 36522, 36612, -1)],
     ["RULE r0 CATEGORY c CUTOFF 5 NEIGHBOURHOOD 3 CONDITIONS a or c", "RULE r1 CATEGORY c CUTOFF 5 NEIGHBOURHOOD 0 CONDITIONS b"],
     {"g0": {"a"}, "g2": {"a", "b"}, "g3": {"b"}, "g4": {"a", "c"}, "g5": {"a"}},
     155876),
]


# ------------------------------------------------------------------ generators

def gen_record(rng):
    """ circular record whose genes sit in the first part of the record, so that no region reaches half of it """
    n_genes = rng.choice([2, 3, 4, 5, 6, 8])
    cutoffs = [rng.choice([1, 2, 5]) * 1000 for _ in range(rng.choice([1, 2, 2, 3]))]
    genes = []
    pos = rng.choice([0, 100, 1500, 4000])
    for i in range(n_genes):
        length = rng.choice([90, 300, 900, 2400])
        start, end = pos, pos + length
        genes.append((f"g{i}", start, end, rng.choice([1, -1])))
        cutoff = rng.choice(cutoffs)
        pos = end + rng.choice([1, 50, cutoff - 1, cutoff, cutoff + 1, cutoff + 700, 3 * cutoff])
    span = genes[-1][2]
    length = span * rng.choice([3, 4, 6]) + rng.choice([0, 1, 999, 20000]) + 30000
    rules = []
    names = []
    for i, cutoff in enumerate(cutoffs):
        nb = rng.choice([0, 1, 3, 5]) * 1000
        cond = rng.choice(CONDITIONS)
        superiors = ""
        if i > 0 and rng.random() < 0.3:
            superiors = f" SUPERIORS {rng.choice(names)}"
        rules.append(f"RULE r{i} CATEGORY c{superiors} CUTOFF {cutoff // 1000} NEIGHBOURHOOD {nb // 1000} CONDITIONS {cond}")
        names.append(f"r{i}")
    hits = {}
    for name, _, _, _ in genes:
        profs = {p for p in "abc" if rng.random() < 0.45}
        if profs:
            hits[name] = profs
    return length, genes, rules, hits


def gen_chain_record(rng):
    """ 3-4 rules forming SUPERIORS chains (r2 < r1 < r0, side branches, unrelated rules), each rule anchored on its own
        profile so that clusters of different rules overlap partially, cover each other or just miss each other;
        linear or circular record, genes in the first third -> (length, circular, genes, rules, profiles, hits) """
    n_rules = rng.choice([3, 3, 4])
    profiles = [f"p{i}" for i in range(n_rules)] + ["x"]
    rules = []
    for i in range(n_rules):
        sups = []
        if i > 0:
            if rng.random() < 0.75:
                sups = [f"r{i - 1}"]
            else:
                sups = [f"r{j}" for j in range(i) if rng.random() < 0.4]
        sup = (" SUPERIORS " + ", ".join(sups)) if sups else ""
        cutoff = rng.choice([1, 1, 2, 5])
        nb = rng.choice([0, 1, 3])
        cond = rng.choice([f"p{i}"] * 4 + [f"p{i} or x", f"cds(p{i} and x)", f"p{i} and x", f"p{i} and not x"])
        rules.append(f"RULE r{i} CATEGORY c{sup} CUTOFF {cutoff} NEIGHBOURHOOD {nb} CONDITIONS {cond}")
    n_genes = rng.choice([2, 3, 4, 5, 6, 8])
    genes = []
    pos = rng.choice([0, 100, 1500, 4000])
    for i in range(n_genes):
        size = rng.choice([90, 300, 900, 2400])
        genes.append((f"g{i}", pos, pos + size, rng.choice([1, -1])))
        pos = pos + size + rng.choice([1, 50, 200, 200, 700, 999, 1000, 1001, 1700, 2100, 6000])
    length = genes[-1][2] * rng.choice([3, 4, 6]) + 30000
    hits = {}
    for name, _, _, _ in genes:
        profs = {p for p in profiles if rng.random() < (0.3 if p == "x" else 0.45)}
        if profs:
            hits[name] = profs
    if rng.random() < 0.25 and n_genes >= 2:
        # the bridging layout: a middle-rule cluster over two genes, overlapping a cluster of its superior on one gene
        # and covering a cluster of its inferior on the other, which the superior's cluster does not touch
        i = rng.randrange(n_genes - 1)
        low, top = (i, i + 1) if rng.random() < 0.5 else (i + 1, i)
        hits[genes[low][0]] = {"p1", "p2"}
        hits[genes[top][0]] = {"p0", "p1"}
    return length, rng.random() < 0.5, genes, rules, profiles, hits


def superiors_first(rules):
    """ the parser requires a superior to be defined before the rule naming it """
    seen = set()
    for text in rules:
        words = text.replace(",", " ").split()
        if "SUPERIORS" in words:
            for name in words[words.index("SUPERIORS") + 1:words.index("CUTOFF")]:
                if name not in seen:
                    return False
        seen.add(words[1])
    return True


def rotate_genes(genes, length, k):
    """ -> rotated gene list, or None when the new origin would cut a gene """
    out = []
    for name, s, e, strand in genes:
        ns, ne = (s + k) % length, (e - 1 + k) % length + 1
        if ns >= ne:
            return None
        out.append((name, ns, ne, strand))
    return out


def gen_spliced_record(rng):
    """ circular record with spliced genes (1-4 exons) on both strands in the first third; hits are dense so that the
        spliced genes are core genes.  genes: (name, [(start, end), ...] ascending, strand) """
    n_genes = rng.choice([3, 4, 5, 6])
    cutoff = rng.choice([1, 2, 5]) * 1000
    genes = []
    pos = rng.choice([0, 100, 1500, 4000])
    for i in range(n_genes):
        parts = []
        for _ in range(rng.choice([1, 2, 3, 3, 4])):
            size = rng.choice([90, 300, 600, 900])
            parts.append((pos, pos + size))
            pos += size + rng.choice([30, 100, 400])
        pos = parts[-1][1] + rng.choice([1, 50, cutoff - 1, cutoff, cutoff + 1, cutoff + 700])
        genes.append((f"g{i}", parts, rng.choice([1, -1])))
    length = genes[-1][1][-1][1] * rng.choice([3, 4, 6]) + rng.choice([0, 1, 999]) + 30000
    nb = rng.choice([0, 1, 3])
    first = rng.choice(["a", "a or b", "a and b", "cds(a and b)", "a and not c", "minimum(2, [a, b, c])"])
    rules = [f"RULE r0 CATEGORY c CUTOFF {cutoff // 1000} NEIGHBOURHOOD {nb} CONDITIONS {first}"]
    if rng.random() < 0.5:
        rules.append(f"RULE r1 CATEGORY c CUTOFF {rng.choice([1, 2, 5])} NEIGHBOURHOOD {rng.choice([0, 1, 3])} "
                     f"CONDITIONS {rng.choice(['b', 'c', 'b or c'])}")
    hits = {}
    for name, _, _ in genes:
        profs = {p for p in "abc" if rng.random() < 0.55}
        if profs:
            hits[name] = profs
    return length, genes, rules, hits


def rotate_spliced(genes, length, k):
    """ the genes after moving the origin by k: every exon moves, an exon that now contains the origin is split in two;
        parts in the order a GenBank file lists them (5' to 3': descending for the reverse strand) """
    out = []
    for name, parts, strand in genes:
        new = []
        for s, e in parts:
            ns, ne = (s + k) % length, (e - 1 + k) % length + 1
            if ns < ne:
                new.append((ns, ne, strand))
            else:
                new += [(ns, length, strand), (0, ne, strand)]
        if strand == -1:
            new.reverse()
        out.append((name, new))
    return out


# ------------------------------------------------------------------ running the implementation

def parse_rules(rules, profiles):
    from antismash.common.hmm_rule_parser import rule_parser
    return rule_parser.Parser("\n".join(rules), set(profiles), {"c"}).rules


def ruleset_from_objects(rule_objects, profiles, hits):
    """ a ruleset listing the already parsed rules in the given order """
    from antismash.common.hmm_rule_parser.structures import DynamicProfile, DynamicHit
    from antismash.common.hmm_rule_parser.test.helpers import create_ruleset

    def mk(profile):
        def detect(_record, _hmmer_hits):
            return {gene: [DynamicHit(gene, profile)] for gene, profs in hits.items() if profile in profs}
        return DynamicProfile(profile, "d", detect)
    return create_ruleset(tuple(rule_objects), dynamic_profiles={p: mk(p) for p in profiles})


def names_within(record, location):
    return tuple(sorted(cds.get_name() for cds in record.get_cds_features_within_location(location)))


def gene_locations(genes):
    """ genes: (name, start, end, strand) or (name, [(start, end, strand), ...] in the order of the location's parts) """
    return [(g[0], [(g[1], g[2], g[3])]) if len(g) == 4 else (g[0], list(g[1])) for g in genes]


@contextlib.contextmanager
def specified_gene_lookup():
    """ replaces Record.get_cds_features_within_location by its specification (a full scan: the genes contained in
        the location, or overlapping it when asked for).  Only used to ATTRIBUTE a rotation difference to the recorded
        classes F13a nested_genes / F13b origin_spanning_gene of that function (C08) """
    from antismash.common.secmet import Record
    from antismash.common.secmet.locations import FeatureLocation
    original = Record.get_cds_features_within_location

    def lookup(self, location, with_overlapping=False):
        if len(location.parts) == 1 and location.start < 0:
            location = FeatureLocation(0, max(1, location.end))
        return [cds for cds in self._cds_features  # pylint: disable=protected-access
                if cds.is_contained_by(location) or (with_overlapping and cds.overlaps_with(location))]
    Record.get_cds_features_within_location = lookup
    try:
        yield
    finally:
        Record.get_cds_features_within_location = original


def run_pipeline(length, genes, rules, hits, circular=True, profiles=PROFILES, objects=None, areas=False):
    """ rules: rule text lines (parsed here), or objects: parsed rules in the order to use.
        -> protoclusters, definition domains [, candidate clusters, regions] """
    record = detect_util.make_record(length, circular, gene_locations(genes))
    if objects is None:
        ruleset = detect_util.make_ruleset("\n".join(rules), list(profiles), hits)
    else:
        ruleset = ruleset_from_objects(objects, profiles, hits)
    result = detect_util.detect(record, ruleset)
    parts = detect_util.loc_parts
    protos = sorted((p.product, tuple(parts(p.core_location)), tuple(parts(p.location)))
                    for p in result.protoclusters)
    domains = []
    for proto, cds_results in result.cds_by_cluster.items():
        key = (proto.product, tuple(parts(proto.core_location)))
        for res in cds_results:
            domains.append((key, res.cds.get_name(),
                            tuple(sorted((rule, tuple(sorted(doms))) for rule, doms in res.definition_domains.items()))))
    for res in result.cdses_outside_clusters:
        domains.append((("outside",), res.cds.get_name(),
                        tuple(sorted((rule, tuple(sorted(doms))) for rule, doms in res.definition_domains.items()))))
    domains.sort()
    if not areas:
        return protos, domains
    members = sorted((p.product, tuple(parts(p.core_location)), names_within(record, p.core_location),
                      names_within(record, p.location)) for p in result.protoclusters)
    for proto in result.protoclusters:
        record.add_protocluster(proto)
    record.create_candidate_clusters()
    cands = sorted((str(c.kind), tuple(sorted(p.product for p in c.protoclusters)), tuple(parts(c.location)),
                    names_within(record, c.location)) for c in record.get_candidate_clusters())
    record.create_regions()
    regions = sorted((tuple(sorted(r.products)), tuple(parts(r.location)), names_within(record, r.location),
                      tuple(sorted(tuple(parts(c.location)) for c in r.candidate_clusters)))
                     for r in record.get_regions())
    return protos, domains, members, cands, regions


def enc_parts(parts):
    out = [len(parts)]
    for s, e in parts:
        out += [s, e, 1]
    return out


RULE = ("(A) rule order: linear and circular records, 2-8 genes with gaps around the cutoffs, 3-4 rules forming SUPERIORS "
        "chains/branches (each rule anchored on its own profile, 8 condition shapes, own cutoff and neighbourhood; a quarter of "
        "the records carry the bridging layout low < mid < top where mid overlaps top and covers low), parsed by the real "
        "parser: up to 4 admissible permutations of the rule text, up to 6 of the n! orders of the parsed rules (always the "
        "reversed one), every rule run alone + Coq removal of covered clusters compared with the full run; plus the "
        "permutations of the 1-3 rule records of (B).  (B) rotation: circular records (genes in the first third, 2-8 genes, "
        "1-3 rules from 9 condition shapes incl. and/or/not/cds/minimum, no SUPERIORS), up to 6 rotations that cut no gene "
        "(incl. ones that make a protocluster, candidate or region span the new origin): protoclusters, candidate clusters "
        "(kind, products, members) and regions (products, members, candidates) compared with the Coq-rotated base areas.  "
        "(B2) rotation through spliced genes: circular records with 3-6 genes of 1-4 exons on both strands (dense hits, 1-2 rules), "
        "up to 6 rotations with the new origin inside an exon of a spliced core gene (one side of the origin then holds >= 2 "
        "parts), on an exon boundary or in an intron; a difference is attributed to the recorded C08 classes F13a/F13b only if "
        "it disappears with the specified gene lookup.  (C) histories of 2-5 hmm_detection.get_ruleset() calls on the shipped "
        "rule files (+ the unrestricted ruleset of one or two of them): strictness, 1-8 rule names, 1-2 categories, taxon, "
        "default fungal multipliers or multipliers k/8 (a quarter of the histories: any float, oracle only), repeated / "
        "permuted selections, rare invalid multipliers; after EVERY call all rulesets so far vs oracle (rule files read as "
        "text) and vs the Coq model on every prefix; detection on a synthetic linear record with canned HMMer hits for 17 gene "
        "types.  (D) the 3 witness sequences of the repaired finding C07-K2, then sequences of 2-5 Ruleset.from_files / "
        "copy_with_replacements / Ruleset(...) calls (sub-selections by names, kept or new multipliers k/8, the bare constructor "
        "over the rule objects of an earlier ruleset): every ruleset, read after the last call, vs the oracle (written distance "
        "times its multipliers) and vs the Coq model.  "
        "Non-trivial = the base run reports at least one protocluster / the history has a non-unit fungal multiplier; "
        "distinct by (record, rotation | permutation | history prefix)")


# ------------------------------------------------------------------ rule order

def check_orders(chk, rng, length, circular, genes, rules, profiles, hits, base, object_orders=True):
    """ base = (protoclusters, domains) of the rules as listed """
    info = {"length": length, "circular": circular, "genes": genes, "hits": {k: sorted(v) for k, v in hits.items()},
            "rules": rules, "profiles": list(profiles)}
    perms = [p for p in list(itertools.permutations(rules))[1:] if superiors_first(p)]
    rng.shuffle(perms)
    for perm in perms[:4]:
        chk.evaluations += 1
        chk.count("rule_text_permutations")
        try:
            got = run_pipeline(length, genes, list(perm), hits, circular, profiles)
        except Exception as exc:  # pylint: disable=broad-except
            got = ("error", type(exc).__name__)
        if got != base:
            chk.violation("counterexample", "detection depends on the order of the rules",
                          {"theorem_or_correspondence": "C07_rule_order / detect_protoclusters_and_signatures",
                           "input": dict(info, permuted=list(perm)), "base": list(base), "permuted_result": got})
            return False
    if not object_orders:
        return True
    objects = parse_rules(rules, profiles)
    orders = list(itertools.permutations(range(len(objects))))[1:]
    reverse = orders[-1]
    rng.shuffle(orders)
    chosen = [reverse] + [o for o in orders if o != reverse][:5]
    for order in chosen:
        chk.evaluations += 1
        chk.count("rule_object_permutations")
        try:
            got = run_pipeline(length, genes, None, hits, circular, profiles, objects=[objects[i] for i in order])
        except Exception as exc:  # pylint: disable=broad-except
            got = ("error", type(exc).__name__)
        if got != base:
            chk.violation("counterexample", "detection depends on the order in which the (parsed) rules are listed",
                          {"theorem_or_correspondence": "C07_rule_order, C07_redundancy_order / detect_protoclusters_and_signatures",
                           "input": dict(info, rule_order=[objects[i].name for i in order]), "base": list(base),
                           "permuted_result": got})
            return False
    return True


def solo_case(length, circular, genes, rules, profiles, hits):
    """ every rule run alone (the parsed rule keeps its SUPERIORS list) -> flat case for the Coq removal, and the
        clusters by (rule, core) """
    objects = parse_rules(rules, profiles)
    index = {rule.name: i for i, rule in enumerate(objects)}
    clusters = []
    for rule in objects:
        protos, _ = run_pipeline(length, genes, None, hits, circular, profiles, objects=[rule])
        clusters.extend(protos)
    flat = [PROP, 2, len(objects)]
    for rule in objects:
        flat += [index[rule.name], len(rule.superiors)] + [index[name] for name in rule.superiors]
    flat.append(len(clusters))
    usable = True
    for product, core, _ in clusters:
        inside = [i for i, (_, s, e, _) in enumerate(genes) if any(ps <= s and e <= pe for ps, pe in core)]
        if len(core) != 1 or not inside:
            usable = False
            break
        flat += [index[product]] + enc_parts(core) + [inside[0], inside[-1]]
    return (flat if usable else None), clusters, [rule.name for rule in objects]


def decode_kept(model, names):
    """ model output of fn 2: n, then per cluster: rule nparts (s e strand)* first last """
    pos = 1
    out = []
    for _ in range(model[0]):
        rule, nparts = model[pos], model[pos + 1]
        pos += 2
        parts = []
        for _ in range(nparts):
            parts.append((model[pos], model[pos + 1]))
            pos += 3
        pos += 2
        out.append((names[rule], tuple(parts)))
    return out


def areas_flat(length, k, base, cands, regions):
    """ the flat case for the Coq rotation of every area of a run: cores and extents of the protoclusters, candidate
        clusters, regions and the candidates listed by each region """
    locs = []
    for _, core, full in base:
        locs += [core, full]
    locs += [c[2] for c in cands] + [r[1] for r in regions]
    for region in regions:
        locs += list(region[3])
    flat = [PROP, 1, length, k, len(locs)]
    for loc in locs:
        flat += enc_parts(loc)
    return flat


def rotation_case(chk, store, length, genes, rotated, rules, hits, k, base_run, nontrivial, spliced):
    """ runs the pipeline on the rotated record and files the case for the comparison with the Coq-rotated base areas """
    cases, impl_outs, meta = store
    base, members, cands, regions = base_run
    try:
        out = run_pipeline(length, rotated, rules, hits, areas=True)
        out = (out[0], out[2], out[3], out[4])
    except Exception as exc:  # pylint: disable=broad-except
        out = ("error", type(exc).__name__, str(exc))
    flat = areas_flat(length, k, base, cands, regions)
    cases.append(flat)
    impl_outs.append(out)
    meta.append({"length": length, "genes": genes, "hits": {g: sorted(v) for g, v in hits.items()}, "rules": rules,
                 "rotation": k, "base": base, "base_members": members, "base_candidates": cands,
                 "base_regions": regions})
    if spliced:
        meta[-1]["spliced"] = True
    chk.count("rotations")
    chk.note_case(flat, nontrivial, meta[-1] if len(chk.samples) < 4 or (spliced and len(chk.samples) < 6) else None)


def attributable_to_gene_lookup(info):
    """ a difference between the two frames of a record with spliced / origin-cut genes is attributed to the recorded
        defects of Record.get_cds_features_within_location (C08: F13a nested_genes, F13b origin_spanning_gene) only
        if (1) one of them is still listed as known, (2) with that one function replaced by its specification the
        rotated run IS the Coq-rotated base run, and (3) the replacement changed the outcome of one of the two runs """
    classes = {f["class"] for f in common.load_known_findings("C08") if f["status"] == "known"}
    if not classes & {"nested_genes", "origin_spanning_gene"}:
        return False
    genes = [(n, [tuple(p) for p in parts], st) for n, parts, st in info["genes"]]
    hits = {g: set(v) for g, v in info["hits"].items()}
    length, k, rules = info["length"], info["rotation"], info["rules"]
    try:
        real_base = run_pipeline(length, rotate_spliced(genes, length, 0), rules, hits, areas=True)
        with specified_gene_lookup():
            base = run_pipeline(length, rotate_spliced(genes, length, 0), rules, hits, areas=True)
            rotated = run_pipeline(length, rotate_spliced(genes, length, k), rules, hits, areas=True)
    except Exception:  # pylint: disable=broad-except
        return False
    try:
        real_rotated = run_pipeline(length, rotate_spliced(genes, length, k), rules, hits, areas=True)
    except Exception:  # pylint: disable=broad-except
        real_rotated = None
    if base == real_base and rotated == real_rotated:
        return False
    model = common.run_driver([areas_flat(length, k, base[0], base[3], base[4])])[0]
    expected = decode_expected(model, {"base": base[0], "base_members": base[2], "base_candidates": base[3],
                                       "base_regions": base[4]})
    return expected is not None and tuple(expected) == tuple(sorted(x) for x in (rotated[0], rotated[2], rotated[3], rotated[4]))


# ------------------------------------------------------------------ (C) histories of hmm_detection.get_ruleset()

STRICTNESS = ["strict", "relaxed", "loose"]
# multipliers whose products with the distances are exact in floating point (so that int(d * m) is the truncated
# rational product of the Coq model); 1.5 is the default fungal neighbourhood multiplier
DYADIC = [0.125, 0.25, 0.5, 0.75, 1.0, 1.25, 1.5, 1.5, 2.0, 2.5, 3.0]
# any other float: only compared with the independent oracle int(written distance * multiplier)
FREE = [1.1, 0.7, 2.3, 1 / 3, 0.9, 1.7]
# genes of the synthetic record: profile hits that make rules of the shipped rule files fire, among them rules with
# SUPERIORS (terpene-precursor < terpene, NRPS-like < NRPS, HR-T2PKS < arylpolyene, RiPP-like < bottromycin, ...)
HIT_POOL = [("T1TS",), ("PT_FPPS_like",), ("Condensation", "AMP-binding", "PP-binding"), ("AMP-binding", "PP-binding"),
            ("PKS_AT", "PKS_KS"), ("APE_KS1",), ("hr-t2pks-ksa", "ketoacyl-synt"), ("botH",), ("strepbact",),
            ("phosphonates-like",), ("Trp_halogenase",), ("DUF3328",), ("t2ks", "t2clf"), ("ksIII",), ("glycocin",),
            ("micKC",), ("T1TS", "PT_FPPS_like"), (),
            # a weak hit that loses against a stronger profile of its equivalence group, which only ANOTHER rule uses
            ("PKS_AT", "?PKS_KS", "t2ks"), ("PKS_AT", "?PKS_KS", "t2ks", "t2clf"), ("?APE_KS1", "ksIII"),
            ("Condensation", "?AMP-binding", "PP-binding", "A-OX")]
FIRING = ["terpene", "terpene-precursor", "NRPS", "NRPS-like", "T1PKS", "arylpolyene", "HR-T2PKS", "bottromycin",
          "RiPP-like", "phosphonate-like", "halogenated", "fungal-RiPP-like", "T2PKS", "PKS-like", "glycocin",
          "lanthipeptide-class-iii"]


def read_rule_files(hd):
    """ the rule files read as TEXT, independently of the parser: per file [(name, category, cutoff, neighbourhood)]
        with the distances as written (kilobases * 1000) """
    import re
    files = []
    for level in STRICTNESS:
        path = hd._get_rule_files_for_strictness(level)[-1]  # pylint: disable=protected-access
        rules = []
        for line in open(path, encoding="utf-8"):
            words = line.split("#")[0].split()
            if not words:
                continue
            if words[0] == "RULE" and re.match(r"^RULE\s", line):
                rules.append([words[1], None, None, None])
            elif rules and words[0] == "CATEGORY" and rules[-1][1] is None:
                rules[-1][1] = words[1]
            elif rules and words[0] == "CUTOFF" and rules[-1][2] is None:
                rules[-1][2] = int(words[1]) * 1000
            elif rules and words[0] == "NEIGHBOURHOOD" and rules[-1][3] is None:
                rules[-1][3] = int(words[1]) * 1000
        files.append([tuple(r) for r in rules])
    return files


class RulesetEnv:
    """ the shipped rule files as numbers for the Coq model, and the real get_ruleset """
    def __init__(self):
        from antismash.detection import hmm_detection
        from antismash.common.hmm_rule_parser import cluster_prediction
        from antismash.detection.hmm_detection.signatures import get_signature_profiles
        self.hd = hmm_detection
        self.cp = cluster_prediction
        self.signatures = {sig.name for sig in get_signature_profiles()} | set(hmm_detection.DYNAMIC_PROFILES)
        self.files = read_rule_files(hmm_detection)
        self.names = [r[0] for rules in self.files for r in rules]
        self.name_id = {name: i for i, name in enumerate(self.names)}
        self.cats = sorted(hmm_detection.CATEGORIES)
        self.cat_id = {cat: i for i, cat in enumerate(self.cats)}
        parsed = self.fresh_parse()
        self.parse_agrees = [(r.name, r.category, r.cutoff, r.neighbourhood) for r in parsed] == \
                            [r for rules in self.files for r in rules]
        self.superiors = {r.name: list(r.superiors) for r in parsed}
        self.profiles = {r.name: set(r.conditions.profiles) for r in parsed}
        self.pool = [p for p in HIT_POOL if all(x.lstrip("?") in self.signatures for x in p)]
        # the equivalence groups read from the shipped file as text
        self.full_groups = [set(line.strip().split(",")) for line in open(hmm_detection.EQUIVALENCE_GROUPS, encoding="utf-8")
                            if line.strip()]
        self.firing = [n for n in FIRING if n in self.name_id]

    def fresh_parse(self):
        return self.cp.create_rules(self.hd._get_rule_files_for_strictness("loose"),  # pylint: disable=protected-access
                                    self.signatures, self.hd.CATEGORIES)

    def base_rules(self, strictness):
        return [r for rules in self.files[:STRICTNESS.index(strictness) + 1] for r in rules]

    def flat_files(self):
        out = [len(self.files)]
        for rules in self.files:
            out.append(len(rules))
            for name, cat, cutoff, nb in rules:
                out += [self.name_id[name], self.cat_id[cat], cutoff, nb]
        return out

    def options(self, req):
        from antismash.config import build_config, destroy_config
        args = ["--hmmdetection-strictness", req["strictness"], "--taxon", req["taxon"]]
        if req["names"]:
            args += ["--hmmdetection-limit-to-rule-names", ",".join(req["names"])]
        if req["cats"]:
            args += ["--hmmdetection-limit-to-rule-categories", ",".join(req["cats"])]
        if req["mults"] is not None:
            args += ["--hmmdetection-fungal-cutoff-multiplier", repr(req["mults"][0]),
                     "--hmmdetection-fungal-neighbourhood-multiplier", repr(req["mults"][1])]
        destroy_config()
        return build_config(args, isolated=True, modules=[self.hd])

    def effective(self, req):
        if req["taxon"] != "fungi":
            return (1.0, 1.0)
        return req["mults"] if req["mults"] is not None else (1.0, 1.5)

    def flat_request(self, req, options):
        """ the names / categories in the order of the tuples the cache key is built from """
        names = tuple(set(options.hmmdetection_limit_to_rules))
        cats = tuple(set(options.hmmdetection_limit_to_categories))
        mults = req["mults"] if req["mults"] is not None else (1.0, 1.5)
        out = [STRICTNESS.index(req["strictness"]), len(names)] + [self.name_id.get(n, 9000 + i) for i, n in enumerate(names)]
        out += [len(cats)] + [self.cat_id.get(c, 9000 + i) for i, c in enumerate(cats)]
        out.append(1 if req["taxon"] == "fungi" else 0)
        for value in mults:
            num, den = float(value).as_integer_ratio()
            out += [num, den]
        return out

    def expected(self, req):
        """ the independent oracle: the selected rules of the files with int(written distance * multiplier) """
        cutoff, neighbourhood = self.effective(req)
        out = []
        for name, cat, written_cutoff, written_nb in self.base_rules(req["strictness"]):
            if req["names"] and name not in req["names"]:
                continue
            if req["cats"] and cat not in req["cats"]:
                continue
            out.append((name, cat, int(written_cutoff * cutoff), int(written_nb * neighbourhood)))
        return out


def dump_ruleset(ruleset):
    return [(r.name, r.category, r.cutoff, r.neighbourhood) for r in ruleset.rules]


def gen_requests(rng, env, dyadic):
    """ 2-5 different selections; some repeated (same set of names in another order = the same cache key or not, as the
        tuple of the set decides), a rare invalid multiplier """
    pool = DYADIC if dyadic else DYADIC + FREE + FREE
    requests = []
    for _ in range(rng.choice([2, 3, 3, 4, 5])):
        if requests and rng.random() < 0.2:
            req = dict(rng.choice(requests))
            req["names"] = rng.sample(req["names"], len(req["names"]))
            requests.append(req)
            continue
        names, cats = [], []
        shape = rng.random()
        if shape < 0.55:
            names = rng.sample(env.firing, rng.choice([1, 1, 2, 3, 5])) + rng.sample(env.names, rng.choice([0, 0, 1, 3]))
            names = list(dict.fromkeys(names))
            if rng.random() < 0.05:
                names.append("no-such-rule")
        if 0.45 < shape < 0.8:
            cats = rng.sample(env.cats, rng.choice([1, 1, 2]))
        mults = None
        if rng.random() < 0.6:
            mults = (rng.choice(pool), rng.choice(pool))
            if rng.random() < 0.06:
                mults = (rng.choice([0.0, -1.0]), mults[1]) if rng.random() < 0.5 else (mults[0], 0.0)
        requests.append({"strictness": rng.choice(STRICTNESS + ["relaxed"]), "names": names, "cats": cats,
                         "taxon": "fungi" if rng.random() < 0.85 else "bacteria", "mults": mults})
    return requests


def gen_hit_record(rng, env):
    """ linear record, single-exon genes that do not overlap, gaps around the scaled cutoffs of the shipped rules """
    genes, hits = [], {}
    pos = rng.choice([0, 1000, 12000])
    for i in range(rng.choice([8, 12, 16])):
        size = rng.choice([600, 1500, 3000])
        genes.append((f"g{i}", pos, pos + size, rng.choice([1, -1])))
        profs = rng.choice(env.pool)
        if profs:
            hits[f"g{i}"] = profs
        pos += size + rng.choice([200, 500, 2000, 4999, 5000, 7500, 9999, 10000, 10001, 15000, 20000, 25001, 30000, 45000])
    return pos + 60000, genes, hits


class CannedHSP:  # pylint: disable=too-few-public-methods
    """ what find_hmmer_hits reads of an hmmsearch HSP """
    def __init__(self, profile, gene, bitscore):
        self.query_id, self.hit_id = profile, gene
        self.hit_start, self.hit_end, self.query_start, self.query_end = 0, 100, 0, 100
        self.bitscore, self.evalue = bitscore, 1e-30


class CannedQueryResult:  # pylint: disable=too-few-public-methods
    def __init__(self, profile, hsps):
        self.accession, self.hsps = profile, hsps


def detect_real(env, length, genes, hits, ruleset):
    """ detect_protoclusters_and_signatures with the given (real) ruleset; only the external HMMer run is replaced by
        canned output, so the signature cutoffs and the competition of equivalent profiles (filter_results with the
        ruleset's own equivalence groups) are part of what runs.  A profile written "?name" is a WEAK hit (half the
        score) on the same stretch of the gene: it survives only if no stronger profile of its group hits the gene """
    from unittest.mock import patch
    by_profile = {}
    for name, profs in hits.items():
        for prof in profs:
            weak = prof.startswith("?")
            by_profile.setdefault(prof.lstrip("?"), []).append(CannedHSP(prof.lstrip("?"), name, 2500. if weak else 5000.))
    canned = [CannedQueryResult(prof, hsps) for prof, hsps in by_profile.items()]
    record = detect_util.make_record(length, False, gene_locations(genes))
    with patch.object(env.cp, "run_hmmsearch", return_value=canned):
        result = env.cp.detect_protoclusters_and_signatures(record, ruleset)
    parts = detect_util.loc_parts
    return sorted((p.product, tuple(parts(p.core_location)), tuple(parts(p.location))) for p in result.protoclusters)


def selection_case(env, length, genes, hits, ruleset, solo_cache):
    """ the clusters of every rule of the ruleset run ALONE (the same rule object in a ruleset of its own) and the flat
        case for the Coq removal of the clusters covered by a superior's cluster -> (flat | None, clusters, names) """
    from antismash.common.hmm_rule_parser.test.helpers import create_ruleset
    hit_profiles = {p.lstrip("?") for profs in hits.values() for p in profs} | set(ruleset.dynamic_profiles)
    rules = list(ruleset.rules)
    index = {rule.name: i for i, rule in enumerate(rules)}
    clusters = []
    for rule in rules:
        if not env.profiles[rule.name] & hit_profiles:
            continue        # the conditions of every shipped rule need a hit (contains_positive_condition)
        key = (rule.name, rule.cutoff, rule.neighbourhood)
        if key not in solo_cache:
            solo = create_ruleset([rule], hmm_profiles=ruleset.hmm_profiles, dynamic_profiles=ruleset.dynamic_profiles,
                                  equivalence_groups=env.full_groups,    # as the shipped file lists them, not as the
                                  categories=ruleset.valid_categories)   # ruleset under test reports them
            solo_cache[key] = detect_real(env, length, genes, hits, solo)
        clusters.extend(solo_cache[key])
    flat = [PROP, 2, len(rules)]
    for rule in rules:
        sups = [index[name] for name in rule.superiors if name in index]
        flat += [index[rule.name], len(sups)] + sups
    flat.append(len(clusters))
    for product, core, _ in clusters:
        inside = [i for i, (_, s, e, _) in enumerate(genes) if any(ps <= s and e <= pe for ps, pe in core)]
        if len(core) != 1 or not inside:
            return None, clusters, [rule.name for rule in rules]
        flat += [index[product]] + enc_parts(core) + [inside[0], inside[-1]]
    return flat, clusters, [rule.name for rule in rules]


def run_history(env, requests, on_call=None):
    """ the calls of one history on the real code, the cache emptied first.  After EVERY call: the state of every
        ruleset handed out so far.  -> per call: list of observations (one per call so far), and the objects """
    env.hd._RULESETS.clear()  # pylint: disable=protected-access
    handed, serial, snapshots, flat_requests = [], {}, [], []
    for req in requests:
        options = env.options(req)
        flat_requests.append(env.flat_request(req, options))
        try:
            ruleset = env.hd.get_ruleset(options)
            serial.setdefault(id(ruleset), len(serial))
            handed.append(ruleset)
        except Exception as exc:  # pylint: disable=broad-except
            handed.append(exc)
        if on_call:
            on_call(len(handed) - 1, handed[-1])
        snapshots.append([("error", err_code(r)) if isinstance(r, Exception) else
                          (serial[id(r)], (r.multipliers.cutoff, r.multipliers.neighbourhood), dump_ruleset(r))
                          for r in handed])
    return snapshots, flat_requests, handed


def encode_snapshot(env, snapshot):
    out = [len(snapshot)]
    for entry in snapshot:
        if entry[0] == "error":
            out += [1, entry[1]]
            continue
        out += [0, entry[0], len(entry[2])]
        for name, cat, cutoff, nb in entry[2]:
            out += [env.name_id.get(name, -1), env.cat_id.get(cat, -1), cutoff, nb]
    return out


def ruleset_histories(chk, rng, quick):
    """ family (C) """
    env = RulesetEnv()
    if not env.parse_agrees:
        chk.violation("broken-correspondence", "the rule files read as text and create_rules() disagree on the names, "
                      "categories or written distances of the rules", {"theorem_or_correspondence": "read_rule_files / create_rules"})
        return
    flat_files = env.flat_files()
    cases, impl_outs, meta = [], [], []
    solo_cases, solo_meta = [], []
    kept_alive = []
    violations = 0
    for number in range(14 if quick else 220):
        dyadic = number % 4 != 3
        requests = gen_requests(rng, env, dyadic)
        length, genes, hits = gen_hit_record(rng, env)
        detections = []

        # the history: the generated selections, and for one or two of them the unrestricted ruleset of the same
        # strictness and multipliers (a further call of the same history), on which detection is compared
        history = []
        chosen = set(rng.sample(range(len(requests)), min(len(requests), 1 if quick else 2)))
        for i, req in enumerate(requests):
            history.append(req)
            if i in chosen and (req["names"] or req["cats"]):
                history.append(dict(req, names=[], cats=[]))
                detections.append((len(history) - 2, len(history) - 1))
        snapshots, flat_requests, handed = run_history(env, history)
        kept_alive.append((history, handed))
        chk.count("ruleset_histories")
        chk.count("get_ruleset_calls", len(history))
        info = {"requests": history, "record": {"length": length, "genes": genes, "hits": {g: list(p) for g, p in hits.items()}}}

        # (1) the oracle, after every call, for every ruleset handed out so far
        bad = None
        for upto, snapshot in enumerate(snapshots):
            for i, entry in enumerate(snapshot):
                req = history[i]
                cutoff, neighbourhood = env.effective(req)
                if entry[0] == "error":
                    if cutoff > 0 and neighbourhood > 0:
                        bad = (i, upto, f"call {i} raised error code {entry[1]}", None)
                elif cutoff <= 0 or neighbourhood <= 0:
                    bad = (i, upto, f"call {i} returned a ruleset for a non-positive multiplier", None)
                elif entry[2] != env.expected(req) or entry[1] != (cutoff, neighbourhood):
                    want = env.expected(req)
                    diff = [(a, b) for a, b in zip(entry[2], want) if a != b][:4]
                    bad = (i, upto, f"the ruleset handed out by call {i} does not hold the selected rules with written "
                                    f"distance * multiplier after call {upto}", diff or (len(entry[2]), len(want)))
                if bad:
                    break
            if bad:
                break
        if bad:
            violations += 1
            if violations <= 2:
                chk.violation("counterexample", "get_ruleset depends on the history of calls: " + bad[2],
                              {"theorem_or_correspondence": "C07_get_ruleset_history_independent / hmm_detection.get_ruleset",
                               "input": info, "call": bad[0], "after_call": bad[1],
                               "first_differences_(have, want)": bad[3]})
            continue
        nontrivial = any(req["taxon"] == "fungi" and env.effective(req) != (1.0, 1.0) for req in history)
        # (2) the Coq model of get_ruleset on every prefix of the history
        if dyadic:
            for upto, snapshot in enumerate(snapshots):
                flat = [PROP, 3] + flat_files + [upto + 1]
                for fr in flat_requests[:upto + 1]:
                    flat += fr
                cases.append(flat)
                impl_outs.append(encode_snapshot(env, snapshot))
                meta.append(dict(info, calls=upto + 1))
                chk.note_case(flat, nontrivial, {"requests": history, "calls": upto + 1} if len(chk.samples) < 1 else None)
        else:
            chk.count("histories_with_non_dyadic_multipliers_oracle_only")
            chk.evaluations += len(snapshots)
        # (3) detection: sub-selection vs each rule alone minus the sanctioned removal
        solo_cache = {}
        for sub_at, full_at in detections:
            for at in (sub_at, full_at):
                ruleset = handed[at]
                if isinstance(ruleset, Exception) or not ruleset.rules:
                    continue
                try:
                    found = detect_real(env, length, genes, hits, ruleset)
                    flat, clusters, names = selection_case(env, length, genes, hits, ruleset, solo_cache)
                except Exception as exc:  # pylint: disable=broad-except
                    chk.violation("broken-correspondence", f"detection with a get_ruleset() ruleset raised {type(exc).__name__}: {exc}",
                                  {"theorem_or_correspondence": "detect_protoclusters_and_signatures", "input": info, "call": at})
                    continue
                if flat is None:
                    chk.count("selection_not_encodable")
                    continue
                solo_cases.append(flat)
                solo_meta.append(dict(info, call=at, clusters_of_rules_run_alone=clusters, full_run=found, names=names))
                chk.note_case(flat, len(clusters) > 0)
                chk.count("selection_detection_runs")
    # (4) directed: a ruleset limited to ONE rule against that rule alone in a ruleset built here with the equivalence
    # groups of the shipped file; the record holds, far apart, every gene of the pool with a weak hit that loses against a
    # stronger profile of its group - a profile that only rules OUTSIDE the selection use
    weak_genes = [p for p in env.pool if any(x.startswith("?") for x in p)] + [("PKS_AT", "PKS_KS"), ("APE_KS1",),
                                                                                ("Condensation", "AMP-binding", "PP-binding")]
    genes = [(f"g{i}", 1000 + i * 150000, 4000 + i * 150000, 1) for i in range(len(weak_genes))]
    hits = {f"g{i}": profs for i, profs in enumerate(weak_genes)}
    length = len(weak_genes) * 150000 + 60000
    solo_cache = {}
    for name in [n for n in ("T1PKS", "NRPS", "NRPS-like", "arylpolyene", "T2PKS", "PKS-like") if n in env.name_id]:
        for taxon in ("bacteria", "fungi"):
            req = {"strictness": "loose", "names": [name], "cats": [], "taxon": taxon, "mults": None}
            env.hd._RULESETS.clear()  # pylint: disable=protected-access
            try:
                ruleset = env.hd.get_ruleset(env.options(req))
                found = detect_real(env, length, genes, hits, ruleset)
                _, alone, _ = selection_case(env, length, genes, hits, ruleset, solo_cache)
            except Exception as exc:  # pylint: disable=broad-except
                chk.violation("broken-correspondence", f"detection limited to rule {name} raised {type(exc).__name__}: {exc}",
                              {"theorem_or_correspondence": "detect_protoclusters_and_signatures", "input": req})
                continue
            chk.count("selection_directed_single_rule_runs")
            chk.evaluations += 1
            if sorted(found) != sorted(alone):
                chk.violation("counterexample", f"the protoclusters of rule {name} depend on which other rules are in the ruleset: "
                              f"limited to this rule by get_ruleset {sorted(found)}, the rule alone with the shipped equivalence "
                              f"groups {sorted(alone)}",
                              {"theorem_or_correspondence": "C07 rule independence / get_ruleset + find_hmmer_hits (filter_results)",
                               "input": {"request": req, "record": {"length": length, "genes": genes,
                                                                     "hits": {g: list(p) for g, p in hits.items()}}},
                               "limited_run": found, "rule_alone": alone})
    # every ruleset of every earlier history must still be what it was when handed out
    for history, handed in kept_alive:
        for req, ruleset in zip(history, handed):
            if not isinstance(ruleset, Exception) and dump_ruleset(ruleset) != env.expected(req) and violations == 0:
                violations += 1
                chk.violation("counterexample", "a ruleset handed out by get_ruleset was changed by later calls",
                              {"theorem_or_correspondence": "C07_get_ruleset_history_independent / hmm_detection.get_ruleset",
                               "input": {"requests": history}, "request": req, "now": dump_ruleset(ruleset)[:5]})
    if [(r.name, r.category, r.cutoff, r.neighbourhood) for r in env.fresh_parse()] != [r for rules in env.files for r in rules]:
        chk.violation("broken-correspondence", "a fresh parse of the rule files no longer gives the written distances",
                      {"theorem_or_correspondence": "create_rules"})
    model_outs = common.run_driver(cases)
    chk.crosscheck_vm(cases, model_outs, k=4 if quick else 20)
    differing = [i for i, (m, o) in enumerate(zip(model_outs, impl_outs)) if m != o]
    chk.extra["get_ruleset_model_disagreements"] = len(differing)
    if differing:
        i = min(differing, key=lambda j: len(cases[j]))
        chk.violation("broken-correspondence", f"get_ruleset and its Coq model differ on {len(differing)} histories",
                      {"theorem_or_correspondence": "Model.get_ruleset / hmm_detection.get_ruleset", "input": meta[i],
                       "implementation": impl_outs[i][:60], "model": model_outs[i][:60]})
    kept_outs = common.run_driver(solo_cases)
    chk.crosscheck_vm(solo_cases, kept_outs, k=10 if quick else 60)
    mismatches = 0
    for flat, model, info in zip(solo_cases, kept_outs, solo_meta):
        kept = sorted(decode_kept(model, info["names"]))
        full_of = {(p, core): full for p, core, full in info["clusters_of_rules_run_alone"]}
        want = sorted((p, core, full_of[(p, core)]) for p, core in kept)
        chk.count("selection_clusters_removed_as_covered", len(info["clusters_of_rules_run_alone"]) - len(kept))
        if want != info["full_run"]:
            mismatches += 1
            if mismatches <= 2:
                chk.violation("counterexample", "the protoclusters found with a ruleset of get_ruleset() are not those of each of "
                              "its rules run alone minus the ones covered by a cluster of a superior rule in the ruleset",
                              {"theorem_or_correspondence": "C07_selection_then_detection, C07_redundancy_spec / "
                                                            "get_ruleset + detect_protoclusters_and_signatures",
                               "input": info, "expected_by_specification": want, "implementation": info["full_run"], "flat": flat})
    chk.extra["selection_detection_mismatches"] = mismatches


def replay_history(info, doc):
    env = RulesetEnv()
    snapshots, _, _ = run_history(env, info["requests"])
    for upto, snapshot in enumerate(snapshots):
        for i, entry in enumerate(snapshot):
            want = env.expected(info["requests"][i])
            if entry[0] != "error" and entry[2] != want:
                diff = [(a, b) for a, b in zip(entry[2], want) if a != b][:5]
                print(f"after call {upto}: ruleset of call {i} ({info['requests'][i]}) differs from written distance * multiplier: "
                      f"(have, want) {diff}")
    print("recorded:", doc.get("what"), doc.get("first_differences_(have, want)"))
    return 0


# ------------------------------------------------------------------ (D) the Ruleset constructors used directly

# the witnesses of the repaired finding C07-K2 (ruleset_copy_rescales_shared_rules) as constructor sequences: run first
# on every run.  ("from_files", strictness, mults) | ("copy", j, names, keep, mults) | ("init", j, names, mults)
API_CORPUS = [
    # a copy of the fungal ruleset restricted to terpene changed the ORIGINAL's terpene neighbourhood 15000 -> 22500
    [("from_files", "relaxed", (1.0, 1.0)), ("copy", 0, [], False, (1.0, 1.5)), ("copy", 1, ["terpene"], True, (1.0, 1.0))],
    # Ruleset.from_files(multipliers=(1.0, 1.5)) gave terpene 22500 at once; a plain copy scaled again
    [("from_files", "relaxed", (1.0, 1.5)), ("copy", 0, [], True, (1.0, 1.0)), ("copy", 1, ["terpene", "NRPS"], False, (2.0, 0.5))],
    # a second Ruleset built directly over the rule objects of the first changed what the first detects with
    [("from_files", "strict", (1.5, 1.5)), ("init", 0, [], (2.0, 2.0)), ("init", 0, ["terpene"], (1.5, 1.5)),
     ("copy", 1, [], True, (1.0, 1.0))],
]


def gen_api_ops(rng, env):
    """ Ruleset.from_files(multipliers=...), copies of earlier rulesets with other rules / multipliers, and Ruleset(...)
        built directly over the rule objects an earlier ruleset detects with """
    def mults():
        return (rng.choice(DYADIC), rng.choice(DYADIC)) if rng.random() < 0.8 else (1.0, 1.0)

    def names():
        if rng.random() < 0.7:
            return list(dict.fromkeys(rng.sample(env.firing, rng.choice([1, 2, 4])) + rng.sample(env.names, rng.choice([0, 2]))))
        return []
    ops = [("from_files", rng.choice(STRICTNESS), mults())]
    for _ in range(rng.choice([1, 2, 3, 4])):
        kind = rng.random()
        if kind < 0.55:
            ops.append(("copy", rng.randrange(len(ops)), names(), rng.random() < 0.4, mults()))
        elif kind < 0.8:
            ops.append(("init", rng.randrange(len(ops)), names(), mults()))
        else:
            ops.append(("from_files", rng.choice(STRICTNESS), mults()))
    return ops


def run_api_ops(env, ops):
    """ -> the rulesets made, and for each what it should hold: (strictness, names or None, [multipliers applied in turn])
        - one pair of multipliers (its own) for from_files and everything copied from it; the bare constructor over the
        rule objects of another ruleset scales what that ruleset holds, so its own multipliers come after the other's """
    from antismash.common.hmm_rule_parser.cluster_prediction import Ruleset
    from antismash.common.hmm_rule_parser.structures import Multipliers
    hd = env.hd
    made, wanted = [], []
    for op in ops:
        if op[0] == "from_files":
            made.append(Ruleset.from_files(hd.SIGNATURE_FILE, hd.HMM_FILE,
                                           hd._get_rule_files_for_strictness(op[1]),  # pylint: disable=protected-access
                                           hd.CATEGORIES, hd.EQUIVALENCE_GROUPS, "rule-based-clusters",
                                           dynamic_profiles=hd.DYNAMIC_PROFILES, multipliers=Multipliers(*op[2])))
            wanted.append((op[1], None, [op[2]]))
            continue
        j, names = op[1], op[2]
        source = made[j]
        rules = [r for r in source.rules if not names or r.name in names]
        strictness, earlier, chain = wanted[j]
        selected = earlier if not names else [n for n in (earlier if earlier is not None else env.names) if n in names]
        if op[0] == "copy":
            _, _, _, keep, mults = op
            kwargs = {"rules": rules}
            if not keep:
                kwargs["multipliers"] = Multipliers(*mults)
            made.append(source.copy_with_replacements(**kwargs))
            wanted.append((strictness, selected, chain[:-1] + [chain[-1] if keep else mults]))
        else:
            made.append(Ruleset(tuple(rules), source.hmm_profiles, source.database_file, source.valid_categories, source.tool,
                                multipliers=Multipliers(*op[3]), dynamic_profiles=source.dynamic_profiles,
                                equivalence_groups=source.get_equivalence_groups()))
            wanted.append((strictness, selected, chain + [op[3]]))
    return made, wanted


def api_want(env, strictness, names, chain):
    """ the independent oracle: the selected rules of the files, the written distances scaled by each pair in turn """
    out = []
    for name, cat, cutoff, nb in env.base_rules(strictness):
        if names is not None and name not in names:
            continue
        for mults in chain:
            cutoff, nb = int(cutoff * mults[0]), int(nb * mults[1])
        out.append((name, cat, cutoff, nb))
    return out


def ruleset_constructors(chk, rng, quick):
    """ family (D): the model of Ruleset(...) / from_files / copy_with_replacements against the real constructors, and what
        every ruleset of a sequence holds AFTER the last call against written distance * its multipliers (independent
        oracle; C07_constructors_history_independent).  Nothing is suppressed: finding C07-K2 is repaired, its witnesses
        are the first sequences (API_CORPUS) """
    env = RulesetEnv()
    flat_files = env.flat_files()
    cases, impl_outs, meta, off_spec = [], [], [], []
    corpus = list(API_CORPUS)
    for _ in range(len(API_CORPUS) + (12 if quick else 120)):
        if corpus:
            ops = corpus.pop(0)
            chk.count("constructor_corpus_sequences")
        else:
            ops = gen_api_ops(rng, env)
        try:
            made, wanted = run_api_ops(env, ops)
        except Exception as exc:  # pylint: disable=broad-except
            chk.violation("broken-correspondence", f"a Ruleset constructor raised {type(exc).__name__}: {exc}",
                          {"theorem_or_correspondence": "Ruleset / Ruleset.from_files / copy_with_replacements", "input": {"ops": ops}})
            continue
        flat = [PROP, 4] + flat_files + [len(ops)]
        for op in ops:
            if op[0] == "from_files":
                flat += [0, STRICTNESS.index(op[1])]
                mults = op[2]
            elif op[0] == "copy":
                flat += [1, op[1], len(op[2])] + [env.name_id[n] for n in op[2]] + [1 if op[3] else 0]
                mults = op[4]
            else:
                flat += [2, op[1], len(op[2])] + [env.name_id[n] for n in op[2]]
                mults = op[3]
            for value in mults:
                flat += list(float(value).as_integer_ratio())
        out = [len(made)]
        wrong = None
        for i, (ruleset, (strictness, names, chain)) in enumerate(zip(made, wanted)):
            out.append(0)
            for value in (ruleset.multipliers.cutoff, ruleset.multipliers.neighbourhood):
                out += list(float(value).as_integer_ratio())
            rules = dump_ruleset(ruleset)
            out.append(len(rules))
            for name, cat, cutoff, nb in rules:
                out += [env.name_id[name], env.cat_id[cat], cutoff, nb]
            want = api_want(env, strictness, names, chain)
            if rules != want and wrong is None:
                wrong = (i, [(a, b) for a, b in zip(rules, want) if a != b][:3])
        cases.append(flat)
        impl_outs.append(out)
        meta.append({"ops": ops})
        off_spec.append(wrong)
        chk.note_case(flat, True)
        chk.count("constructor_sequences")
        if any(op[0] == "init" for op in ops):
            chk.count("constructor_sequences_with_bare_constructor")
    model_outs = common.run_driver(cases)
    chk.crosscheck_vm(cases, model_outs, k=3 if quick else 12)
    reported = False
    for flat, model, got, info, wrong in zip(cases, model_outs, impl_outs, meta, off_spec):
        if reported:
            break
        if wrong:
            chk.violation("counterexample", f"ruleset {wrong[0]} of a sequence of Ruleset constructor calls does not hold, after "
                          "the last call, the distances it was given times its own multipliers (class "
                          "ruleset_copy_rescales_shared_rules, repaired as C07-K2: the distances depend on the history of "
                          "constructions again)",
                          {"theorem_or_correspondence": "C07_constructors_history_independent, C07_ruleset_copy_history_independent, "
                                                        "C07_from_files_multipliers_once / Ruleset, Ruleset.from_files, "
                                                        "copy_with_replacements",
                           "input": info, "first_differences_(have, want)": wrong[1], "implementation": got[:40],
                           "model": model[:40], "flat": flat})
            reported = True
        elif model != got:
            chk.violation("broken-correspondence", "Ruleset / Ruleset.from_files / copy_with_replacements and their Coq model differ",
                          {"theorem_or_correspondence": "Model.ruleset_init, Model.from_files, Model.copy_with_replacements / Ruleset",
                           "input": info, "implementation": got[:40], "model": model[:40], "flat": flat})
            reported = True
    # the stored witness of the repaired finding, step by step (regression)
    for finding in common.load_known_findings("C07"):
        if finding.get("class") == "ruleset_copy_rescales_shared_rules" and not reported:
            state = ruleset_copy_witness(finding["witness"])
            chk.extra["ruleset_copy_witness"] = state
            if not state.get("before") == state.get("after") == state.get("in_copy") == finding["witness"]["before_copy"]:
                chk.violation("counterexample", "the witness of the repaired finding C07-K2 fails again: copying the fungal "
                              f"ruleset restricted to {finding['witness']['rule']} changed the distances of the ruleset copied from "
                              f"(or get_ruleset no longer gives written distance * multiplier): {state}",
                              {"theorem_or_correspondence": "C07_ruleset_copy_history_independent / get_ruleset, copy_with_replacements",
                               "input": {"ops": API_CORPUS[0]}, "witness": finding["witness"], "observed": state})
                reported = True


def ruleset_copy_witness(witness):
    """ the witness of C07-K2: the distances of the fungal ruleset's rule before and after a copy is made of it, and the
        distances in the copy """
    env = RulesetEnv()
    env.hd._RULESETS.clear()  # pylint: disable=protected-access
    try:
        request = {"strictness": witness["strictness"], "names": [], "cats": [], "taxon": witness["taxon"], "mults": None}
        ruleset = env.hd.get_ruleset(env.options(request))
        rule = ruleset.get_rule_by_name(witness["rule"])
        before = [rule.cutoff, rule.neighbourhood]
        copied = ruleset.copy_with_replacements(rules=[rule])
        after = [ruleset.get_rule_by_name(witness["rule"]).cutoff, ruleset.get_rule_by_name(witness["rule"]).neighbourhood]
        in_copy = [copied.get_rule_by_name(witness["rule"]).cutoff, copied.get_rule_by_name(witness["rule"]).neighbourhood]
        return {"before": before, "after": after, "in_copy": in_copy}
    except Exception as exc:  # pylint: disable=broad-except
        return {"error": f"{type(exc).__name__}: {exc}"}
    finally:
        env.hd._RULESETS.clear()  # pylint: disable=protected-access


# ------------------------------------------------------------------ the run

def run(chk):
    if not chk.build_and_audit():
        return chk.finish(RULE)
    rng = chk.rng
    quick = chk.tier == "quick"

    # ---- (C) histories of get_ruleset (first: the rule files are read before any ruleset is built)
    ruleset_histories(chk, rng, quick)
    ruleset_constructors(chk, rng, quick)

    # ---- (A) rule order, sub-selection and the sanctioned removal of covered clusters
    solo_cases, solo_meta = [], []
    order_violations = 0
    for _ in range(450 if quick else 6000):
        length, circular, genes, rules, profiles, hits = gen_chain_record(rng)
        try:
            base = run_pipeline(length, genes, rules, hits, circular, profiles)
        except Exception as exc:  # pylint: disable=broad-except
            chk.count("base_error_" + type(exc).__name__)
            continue
        chk.count("chain_records")
        if order_violations < 3 and not check_orders(chk, rng, length, circular, genes, rules, profiles, hits, base):
            order_violations += 1
        flat, clusters, names = solo_case(length, circular, genes, rules, profiles, hits)
        if flat is None:
            chk.count("solo_not_encodable")
            continue
        solo_cases.append(flat)
        solo_meta.append({"length": length, "circular": circular, "genes": genes, "rules": rules, "profiles": profiles,
                          "hits": {k: sorted(v) for k, v in hits.items()}, "clusters_of_rules_run_alone": clusters,
                          "full_run": base[0], "names": names})
        chk.note_case(flat, len(clusters) > 0, solo_meta[-1] if len(chk.samples) < 2 else None)
    kept_outs = common.run_driver(solo_cases)
    chk.crosscheck_vm(solo_cases, kept_outs, k=60 if quick else 300)
    removal_mismatches = removed_total = 0
    for flat, model, info in zip(solo_cases, kept_outs, solo_meta):
        kept = sorted(decode_kept(model, info["names"]))
        full_of = {(p, core): full for p, core, full in info["clusters_of_rules_run_alone"]}
        want = sorted((p, core, full_of[(p, core)]) for p, core in kept)
        removed_total += len(info["clusters_of_rules_run_alone"]) - len(kept)
        if want != info["full_run"]:
            removal_mismatches += 1
            if removal_mismatches <= 2:
                chk.violation("counterexample", "the protoclusters of the full ruleset are not those of each rule run alone minus "
                              "the ones covered by a cluster of a superior rule",
                              {"theorem_or_correspondence": "C07_redundancy_spec, C07_rule_subselection / "
                                                            "detect_protoclusters_and_signatures",
                               "input": info, "expected_by_specification": want, "implementation": info["full_run"],
                               "flat": flat})
    chk.extra["removal_mismatches"] = removal_mismatches
    chk.count("clusters_removed_as_covered_by_superior", removed_total)

    # ---- (B) rotation (and the rule order of these records)
    store = ([], [], [])
    corpus = list(ROTATION_CORPUS)
    for _ in range(450 if quick else 7000):
        forced = None
        if corpus:
            length, genes, rules, hits, forced = corpus.pop(0)
            chk.count("rotation_corpus_records")
        else:
            length, genes, rules, hits = gen_record(rng)
        try:
            base, base_domains, members, cands, regions = run_pipeline(length, genes, rules, hits, areas=True)
        except Exception as exc:  # pylint: disable=broad-except
            chk.count("base_error_" + type(exc).__name__)
            continue
        chk.count("records")
        nontrivial = len(base) > 0
        if len(rules) > 1 and order_violations < 3:
            if not check_orders(chk, rng, length, True, genes, rules, PROFILES, hits, (base, base_domains),
                                object_orders=False):
                order_violations += 1
        candidates = set()
        for _, s, e, _ in genes:
            candidates.update([(-s) % length, (-e) % length, (-s + 1) % length, (-e - 1) % length])
        for _, core, full in base:
            for s, e in core + full:
                candidates.update([(-s) % length, (-e) % length, (-(s + e) // 2) % length])
        for parts in [c[2] for c in cands] + [r[1] for r in regions]:
            for s, e in parts:
                candidates.update([(-s) % length, (-e) % length])
        candidates.update(rng.randrange(length) for _ in range(3))
        ks = [k for k in sorted(candidates) if k and rotate_genes(genes, length, k) is not None]
        if any("SUPERIORS" in rule for rule in rules):
            # recorded finding rotation_superior_partial_overlap: rules with superiors are only used for the rule-order runs
            chk.count("records_with_superiors_not_rotated")
            ks = []
        rng.shuffle(ks)
        if forced is not None:
            ks = [forced] + [k for k in ks if k != forced]
        for k in ks[:6]:
            rotation_case(chk, store, length, genes, rotate_genes(genes, length, k), rules, hits, k,
                          (base, members, cands, regions), nontrivial, False)

    # ---- (B2) rotation through spliced genes: multi-exon core genes on both strands, the new origin inside an exon
    # (one side of the origin then holds two or more parts of the gene), on an exon boundary or in an intron
    for _ in range(200 if quick else 2500):
        length, genes, rules, hits = gen_spliced_record(rng)
        try:
            base, _, members, cands, regions = run_pipeline(length, rotate_spliced(genes, length, 0), rules, hits, areas=True)
        except Exception as exc:  # pylint: disable=broad-except
            chk.count("base_error_" + type(exc).__name__)
            continue
        chk.count("spliced_records")
        # origins inside the exons of spliced CORE genes first (both strands), then exon boundaries, introns and the
        # exons of the other spliced genes
        core_genes = {name for _, _, inner, _ in members for name in inner}
        first, others = [], []
        for name, parts, strand in genes:
            if len(parts) < 2:
                continue
            for s, e in parts:
                (first if name in core_genes else others).append(((-(s + rng.randrange(1, e - s))) % length,
                                                                  f"origin_in_exon_strand_{strand}"))
            others.append(((-rng.choice(parts)[0]) % length, "origin_on_exon_boundary"))
            others.append(((-(parts[0][1] + 5)) % length, "origin_in_intron"))
        rng.shuffle(first)
        rng.shuffle(others)
        ks = first[:4] + others[:2]
        for k, kind in ks:
            chk.count("spliced_" + kind)
            rotation_case(chk, store, length, genes, rotate_spliced(genes, length, k), rules, hits, k,
                          (base, members, cands, regions), len(base) > 0, True)

    cases, impl_outs, meta = store
    # expected image of every base area under each rotation, from the Coq model
    model_outs = common.run_driver(cases)
    chk.crosscheck_vm(cases, model_outs, k=100 if quick else 600)
    mismatches = 0
    for flat, model, got, info in zip(cases, model_outs, impl_outs, meta):
        expected = decode_expected(model, info)
        if expected is None:
            chk.count("model_rotation_error")
            continue
        if got[0] == "error":
            have = got          # no class of failing rotations is recorded (C07-K1 is repaired): a violation below
        else:
            have = tuple(sorted(x) for x in got)
        if tuple(expected) != have:
            if info.get("spliced") and attributable_to_gene_lookup(info):
                chk.count("known_class_gene_lookup_F13")
                continue
            mismatches += 1
            if mismatches <= 3:
                level = next((name for name, w, h in zip(("protoclusters", "protocluster members", "candidate clusters",
                                                           "regions"), expected, have) if w != h), "run")
                if got[0] == "error":
                    level = f"the run on the rotated record raised {got[1]}: {got[2]}; results"
                chk.violation("counterexample", f"detection is not invariant under rotation of the origin ({level} differ)",
                              {"theorem_or_correspondence": "C07_rotation_pipeline / detect_protoclusters_and_signatures, "
                                                            "create_candidate_clusters, create_regions",
                               "input": info, "expected_rotated": expected, "implementation_on_rotated_record": have,
                               "flat": flat})
    chk.extra["rotation_mismatches"] = mismatches
    known_findings(chk)
    return chk.finish(RULE, trusted_extra=["the rotation of the gene coordinates is done by the harness (rotate_genes); the expected "
                                           "image of the areas is computed by the Coq model of offset_location",
                                           "the positions of the first/last core CDS handed to the Coq removal are computed by "
                                           "the harness from the gene list (genes of these records do not overlap)",
                                           "get_ruleset histories: the written distances come from the harness' own reading of the "
                                           "rule files as text (cross-checked against create_rules); the HMMer search is replaced "
                                           "by canned hits; multipliers travel to the model as float.as_integer_ratio()",
                                           "attribution of spliced-gene rotation differences to C08 F13a/F13b uses a harness-side "
                                           "specification of Record.get_cds_features_within_location (full scan)"])


def known_findings(chk):
    """ recorded, unrepaired defects: printed only while the stored witness still reproduces """
    for finding in common.load_known_findings("C07"):
        if finding["status"] != "known":
            continue
        w = finding["witness"]
        if finding["class"] == "rotation_superior_partial_overlap":
            genes = [tuple(g) for g in w["genes"]]
            hits = {k: set(v) for k, v in w["hits"].items()}
            rotated = rotate_genes(genes, w["length"], w["rotation"])
            try:
                base, _ = run_pipeline(w["length"], genes, w["rules"], hits)
                got, _ = run_pipeline(w["length"], rotated, w["rules"], hits)
            except Exception:  # pylint: disable=broad-except
                continue
            if len(got) != len(base):
                chk.known(finding["what_fails"])


def decode_expected(model, info):
    """ model output: n, then per loc: 0 nparts (s e strand)* | 1 kind
        -> expected (protoclusters, members, candidates, regions) on the rotated record """
    pos = 1
    locs = []
    for _ in range(model[0]):
        if model[pos] != 0:
            return None
        n = model[pos + 1]
        parts = []
        pos += 2
        for _ in range(n):
            parts.append((model[pos], model[pos + 1]))
            pos += 3
        locs.append(tuple(parts))
    base, members, cands, regions = info["base"], info["base_members"], info["base_candidates"], info["base_regions"]
    rotated_core = {}
    protos = []
    for i, (product, core, _) in enumerate(base):
        protos.append((product, locs[2 * i], locs[2 * i + 1]))
        rotated_core[(product, core)] = locs[2 * i]
    at = 2 * len(base)
    new_members = [(product, rotated_core[(product, core)], inner, outer) for product, core, inner, outer in members]
    new_cands = [(kind, products, locs[at + i], names) for i, (kind, products, _, names) in enumerate(cands)]
    at += len(cands)
    region_locs = locs[at:at + len(regions)]
    at += len(regions)
    new_regions = []
    for (products, _, names, children), loc in zip(regions, region_locs):
        new_regions.append((products, loc, names, tuple(sorted(locs[at:at + len(children)]))))
        at += len(children)
    return sorted(protos), sorted(new_members), sorted(new_cands), sorted(new_regions)


def replay(chk, path):
    import json
    doc = json.load(open(path))
    info = doc["input"]
    if "requests" in info:
        return replay_history(info, doc)
    if "ops" in info:
        env = RulesetEnv()
        made, wanted = run_api_ops(env, [tuple(op) for op in info["ops"]])
        for i, (ruleset, (strictness, names, chain)) in enumerate(zip(made, wanted)):
            want = api_want(env, strictness, names, chain)
            diff = [(a, b) for a, b in zip(dump_ruleset(ruleset), want) if a != b][:4]
            print(f"ruleset {i} ({info['ops'][i]}):", "holds written distance * multiplier" if not diff else
                  f"(have, want) {diff}")
        return 0
    genes = [tuple(g) for g in info["genes"]]
    hits = {k: set(v) for k, v in info["hits"].items()}
    if "rotation" in info:
        if info.get("spliced"):
            spliced = [(n, [tuple(p) for p in parts], st) for n, parts, st in info["genes"]]
            rotated = rotate_spliced(spliced, info["length"], info["rotation"])
            print("genes of the rotated record:", rotated)
        else:
            rotated = rotate_genes(genes, info["length"], info["rotation"])
        try:
            print("implementation on rotated record:", run_pipeline(info["length"], rotated, info["rules"], hits, areas=True))
        except Exception as exc:  # pylint: disable=broad-except
            print("implementation on rotated record raises", type(exc).__name__, exc)
        print("expected:", doc.get("expected_rotated"))
        return 0
    profiles = info.get("profiles", PROFILES)
    circular = info.get("circular", True)
    print("rules as listed:", run_pipeline(info["length"], genes, info["rules"], hits, circular, profiles)[0])
    if "permuted" in info:
        print("permuted text:", run_pipeline(info["length"], genes, info["permuted"], hits, circular, profiles)[0])
    elif "rule_order" in info:
        objects = {rule.name: rule for rule in parse_rules(info["rules"], profiles)}
        print("rule order", info["rule_order"], ":",
              run_pipeline(info["length"], genes, None, hits, circular, profiles,
                           objects=[objects[name] for name in info["rule_order"]])[0])
    else:
        print("each rule alone:", info.get("clusters_of_rules_run_alone"))
        print("expected by the specification:", doc.get("expected_by_specification"))
    return 0
