"""C11, fn 7: the protocluster / CDS payload of RuleDetectionResults (model: coq/C11/ModelRule.v).

gen_rule(rng) -> (args, what), args = [j, names, cur]; impl_rule(args) -> flat list, the real
RuleDetectionResults.from_json / to_json on the JSON as a later run parses it.
"""
import copy
import types

import common
import c11
from c11 import enc, through_orjson, guarded, out_ok

PRODUCTS = ["T1PKS", "NRPS-like", "NRPS", "terpene", "lanthipeptide-class-i", "RiPP-like", "hglE-KS", "T3PKS",
            "NAPAA", "transAT-PKS", "PKS-like", "betalactone", "a", "x_1"]
CATEGORIES = ["PKS", "NRPS", "terpene", "RiPP", "other", ""]
DOMAIN_NAMES = ["PKS_KS", "PKS_AT", "AMP-binding", "Condensation", "Terpene_synth_C", "LANC_like", "p450",
                "adh_short", "mod_KS", "PP-binding", "A", "b"]
TOOLS = ["rule-based-clusters", "hmmdetection", "tool"]
RECORD_LEN = 1000


def gen_location(rng):
    """ (location text, core text) """
    if rng.random() < 0.7:
        a = rng.randint(0, RECORD_LEN - 100)
        b = rng.randint(a + 20, min(RECORD_LEN, a + 400))
        c = rng.randint(a, b - 10)
        d = rng.randint(c + 1, b)
        return f"[{a}:{b}](+)", f"[{c}:{d}](+)"
    a = rng.randint(RECORD_LEN - 300, RECORD_LEN - 20)
    b = rng.randint(20, 300)
    loc = f"join{{[{a}:{RECORD_LEN}](+), [0:{b}](+)}}"
    r = rng.random()
    if r < 0.4:
        c = rng.randint(a, RECORD_LEN - 5)
        d = rng.randint(5, b)
        core = f"join{{[{c}:{RECORD_LEN}](+), [0:{d}](+)}}"
    elif r < 0.7:
        c = rng.randint(a, RECORD_LEN - 10)
        core = f"[{c}:{rng.randint(c + 1, RECORD_LEN)}](+)"
    else:
        c = rng.randint(0, b - 10)
        core = f"[{c}:{rng.randint(c + 1, b)}](+)"
    return loc, core


def gen_protocluster(rng, number):
    loc, core = gen_location(rng)
    quals = {"aStool": [rng.choice(TOOLS)]}
    category = rng.choice(CATEGORIES)
    if category:
        quals["category"] = [category]
    in_record = rng.random() < 0.5
    if in_record:
        quals["contig_edge"] = [str(rng.random() < 0.3)]
    quals["core_location"] = [core]
    quals["cutoff"] = [str(rng.choice([0, 5000, 20000, 20, rng.randint(0, 100000)]))]
    quals["detection_rule"] = [rng.choice(["(PKS_KS and PKS_AT)", "cds(A and b)", "minimum(2, [A, b])", "A"])]
    quals["neighbourhood"] = [str(rng.choice([0, 10000, 20000, rng.randint(0, 100000)]))]
    quals["product"] = [rng.choice(PRODUCTS)]
    if in_record:
        quals["protocluster_number"] = [str(number)]
    quals["tool"] = ["antismash"]
    assert list(quals) == sorted(quals)
    return {"location": loc, "type": "protocluster", "qualifiers": quals}


def gen_domain(rng):
    return [rng.choice(DOMAIN_NAMES), c11.gen_float(rng) if rng.random() < 0.5 else 10.0 ** -rng.randint(1, 60),
            abs(c11.gen_float(rng)), rng.randint(1, 400), rng.choice(TOOLS)]


def gen_cds_results(rng, name):
    domains = [gen_domain(rng) for _ in range(rng.randint(1, 3))]
    defs = {}
    for product in rng.sample(PRODUCTS, rng.randint(0, 2)):
        defs[product] = sorted(set(rng.choice(DOMAIN_NAMES) for _ in range(rng.randint(0, 3))))
    return {"cds_name": name, "domains": domains, "definition_domains": defs}


def gen_rule(rng):
    names = [f"cds{i}" for i in range(rng.randint(1, 8))]
    if rng.random() < 0.3:
        names += ["gene_A", "ctg1_22"]
    pairs = []
    for i in range(rng.randint(1, 3)):
        cluster = gen_protocluster(rng, i + 1)
        cdss = [gen_cds_results(rng, rng.choice(names)) for _ in range(rng.randint(0, 3))]
        pairs.append([cluster, cdss])
    outside = [gen_cds_results(rng, rng.choice(names)) for _ in range(rng.randint(0, 3))]
    mults = [1.0, 1.5, 2.0, 0.5, 0.3]
    j = {"schema_version": 4, "tool": rng.choice(TOOLS), "cds_by_protocluster": pairs,
         "outside_protoclusters": outside,
         "multipliers": {"cutoff": rng.choice(mults), "neighbourhood": rng.choice(mults)}}
    cur = 4
    what = "as_saved"
    if rng.random() < 0.4:
        j, what = deviate(rng, j)
    return [j, names, cur], what


def all_cds_results(j):
    out = list(j["outside_protoclusters"])
    for _cluster, cdss in j["cds_by_protocluster"]:
        out.extend(cdss)
    return out


def deviate(rng, j):
    """ exactly one deviation from the saved form; returns (json, label) """
    j = copy.deepcopy(j)
    cluster = rng.choice(j["cds_by_protocluster"])[0]
    quals = cluster["qualifiers"]
    cdss = all_cds_results(j)
    mandatory = ["neighbourhood", "cutoff", "product", "aStool", "detection_rule", "core_location"]
    kind = rng.choice(["inner_schema", "unknown_cds", "key_missing", "qualifier_missing", "cutoff_text",
                       "qualifier_empty", "product_bad", "core_crosses", "wrong_type", "domains_empty",
                       "defs_unsorted", "domain_short", "pair_of_three", "cds_key_missing", "feature_key_missing"])
    if kind == "inner_schema":
        if rng.random() < 0.3:
            del j["schema_version"]
        else:
            j["schema_version"] = rng.choice([3, 5, 1])
    elif kind == "key_missing":
        del j[rng.choice([k for k in j if k != "schema_version"])]
    elif kind == "feature_key_missing":
        del cluster[rng.choice(list(cluster))]
    elif kind == "qualifier_missing":
        del quals[rng.choice(mandatory)]
    elif kind == "cutoff_text":
        quals[rng.choice(["cutoff", "neighbourhood"])] = ["x"]
    elif kind == "qualifier_empty":
        quals[rng.choice(mandatory + ["category", "contig_edge"])] = []
    elif kind == "product_bad":
        quals["product"] = [rng.choice(["-bad", "bad_", "a b", "", "_", "a.b"])]
    elif kind == "core_crosses":
        if "join" in cluster["location"]:
            kind = "core_crosses_both"
        quals["core_location"] = [f"join{{[{RECORD_LEN - 10}:{RECORD_LEN}](+), [0:10](+)}}"]
    elif kind == "wrong_type":
        cluster["type"] = rng.choice(["cand_cluster", "region", "proto_core"])
    elif kind == "pair_of_three":
        pair = rng.choice(j["cds_by_protocluster"])
        if rng.random() < 0.5:
            pair.append([])
        else:
            pair.pop()
    elif not cdss:
        return deviate(rng, j)
    elif kind == "unknown_cds":
        rng.choice(cdss)["cds_name"] = "not_a_cds"
    elif kind == "cds_key_missing":
        chosen = rng.choice(cdss)
        del chosen[rng.choice(list(chosen))]
    elif kind == "domains_empty":
        rng.choice(cdss)["domains"] = []
    elif kind == "defs_unsorted":
        names = rng.choice([["b", "A"], ["p450", "p450"], ["b", "A", "b"], ["PKS_KS", "PKS_AT", "PKS_KS"]])
        rng.choice(cdss)["definition_domains"]["T1PKS"] = names
    elif kind == "domain_short":
        domains = rng.choice(cdss)["domains"]
        target = rng.choice(domains)
        if rng.random() < 0.5:
            target.pop()
        else:
            target.append("extra")
    return j, kind


_CDS_CACHE = {}


def fake_record(names):
    """ what CDSResults.from_json needs of a record: get_cds_by_name with real CDS features """
    from antismash.common.secmet.test.helpers import DummyCDS

    def get_cds_by_name(name):
        if name not in names:
            raise KeyError(name)
        if name not in _CDS_CACHE:
            _CDS_CACHE[name] = DummyCDS(locus_tag=name)
        return _CDS_CACHE[name]
    return types.SimpleNamespace(get_cds_by_name=get_cds_by_name, id="rec")


def impl_rule(args):
    from antismash.common.hmm_rule_parser.cluster_prediction import RuleDetectionResults
    j, names, cur = args

    def work():
        old = RuleDetectionResults.schema_version
        RuleDetectionResults.schema_version = cur
        try:
            res = RuleDetectionResults.from_json(through_orjson(j), fake_record(set(names)))
            if res is None:
                return [0, 0]
            return out_ok(through_orjson(res.to_json()))
        finally:
            RuleDetectionResults.schema_version = old
    return guarded(work)


def dropped_in_record(j):
    """ the input with the run-specific qualifiers of every protocluster removed """
    j = copy.deepcopy(j)
    for cluster, _cdss in j["cds_by_protocluster"]:
        cluster["qualifiers"].pop("contig_edge", None)
        cluster["qualifiers"].pop("protocluster_number", None)
    return j


def selftest(count=300, seed=1):
    import random
    common.setup_repo_path()
    rng = random.Random(seed)
    histogram = {}
    mismatches = []
    for i in range(count):
        args, what = gen_rule(rng)
        out = impl_rule(args)
        if out[0] == 1:
            kind = "error " + common.ERR_NAME.get(out[1], str(out[1]))
        elif out[1] == 0:
            kind = "discarded"
        else:
            kind = "reused"
        histogram[(what, kind)] = histogram.get((what, kind), 0) + 1
        if what == "as_saved":
            expected = [0, 1] + enc(through_orjson(dropped_in_record(args[0])))
            if out != expected:
                mismatches.append((i, args, out[:2]))
    for (what, kind), n in sorted(histogram.items()):
        print(f"{what:22s} {kind:28s} {n}")
    total = sum(histogram.values())
    reused = sum(n for (what, kind), n in histogram.items() if kind == "reused")
    print(f"total {total}, reused {reused}, as_saved mismatches {len(mismatches)}")
    for item in mismatches[:3]:
        print("MISMATCH", item)
    return not mismatches


if __name__ == "__main__":
    import sys
    sys.exit(0 if selftest() else 1)
