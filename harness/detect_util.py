"""Shared helpers: build a secmet Record with genes, a ruleset from rule text with dynamic profiles
(no HMMER), and run the real detection pipeline."""


def make_record(length, circular, genes):
    """ genes: [(name, [(start, end, strand), ...])] """
    from antismash.common.secmet import Record
    from antismash.common.secmet.locations import FeatureLocation, CompoundLocation
    from antismash.common.secmet.test.helpers import DummyCDS
    record = Record("A" * length)
    record.add_annotation("topology", "circular" if circular else "linear")
    for name, parts in genes:
        fls = [FeatureLocation(s, e, st) for s, e, st in parts]
        location = fls[0] if len(fls) == 1 else CompoundLocation(fls)
        record.add_cds_feature(DummyCDS(location=location, locus_tag=name))
    return record


def make_ruleset(rules_text, profiles, hits, categories=("c",)):
    """ hits: {gene name: set of profile names}; every profile is dynamic """
    from antismash.common.hmm_rule_parser import rule_parser
    from antismash.common.hmm_rule_parser.structures import DynamicProfile, DynamicHit
    from antismash.common.hmm_rule_parser.test.helpers import create_ruleset

    def mk(profile):
        def detect(_record, _hmmer_hits):
            return {gene: [DynamicHit(gene, profile)] for gene, profs in hits.items() if profile in profs}
        return DynamicProfile(profile, "d", detect)
    dynamic = {p: mk(p) for p in profiles}
    rules = rule_parser.Parser(rules_text, set(profiles), set(categories)).rules
    return create_ruleset(rules, dynamic_profiles=dynamic)


def detect(record, ruleset):
    from antismash.common.hmm_rule_parser import cluster_prediction
    return cluster_prediction.detect_protoclusters_and_signatures(record, ruleset)


def loc_parts(location):
    return [(int(p.start), int(p.end)) for p in location.parts]
