"""C10: annotated records survive the GenBank and the JSON round trip.

Stream (f), fourth round: optional qualifiers against the model (fn 16-21: `is not None` pattern of evalue / score / SMILES /
polymer / codon_start, truthiness pattern of database / detection / label), and in the whole-record stream every
qualifier-backed attribute of every domain class, prepeptides and candidate structures drawn from pools of falsy-but-valid
values (0, 0.0, -0.0, '', [], smallest / largest floats, ints where floats are stored) and compared type-exactly (exact()).

Five streams ((e) read path of single features through Record.from_biopython - misc_feature prefilter, location_bridges_origin
with / without allow_reversing, add_gene's exon order - and the order of CDS features through add_cds_feature: fn 13-15, see
read_path_cases)
Four older streams ((d) qualifier codecs: aStool 'externally annotated by: <tool>', gene function text form through the model
of _parse_format, sec_met domain label, number lists - fn 7-12; see qualifier_codec_cases):
 (a) codec: str(location) / location_from_string / str(int) / int(str) against the Coq model (fn 1-4);
 (b) skeleton: real Records holding protoclusters, subregions, candidate clusters and regions go through
     Record.to_biopython -> SeqIO.write -> SeqIO.parse -> Record.from_biopython and through
     record_to_json -> json.dumps -> json.loads -> record_from_json; the order in which the collections are
     written, the reloaded lists (numbering, cross references, recomputed locations) and the two
     "same record / same second file" verdicts are compared with the model (fn 5); the guard of the theorem
     C10_relink is evaluated by the model (fn 6) and the property itself is evaluated on every case;
 (c) whole records (genes with gene functions, codon_start, PFAM / aSDomain / motif features, sideloaded
     areas, linear and circular, origin-spanning genes and areas): canonical dumps of the original and the
     reloaded record and the text fixed point, on the real code only (Biopython / orjson are not modelled).
Repaired findings (C10-F60 core leak, F61 notes duplicated, F62 tool prefix recursion, F64 empty gene ontologies) are not
suppressed: their witnesses form the regression corpus (regression_corpus, ASTOOL_CORPUS), run first.
"""
import io
import json as pyjson
import os
import re

import common
from common import err_code

PROP = 10
KNOWN_CLASS = "equal_key_areas"
KNOWN_CLASS2 = "whole_record_vs_origin_spanning_order"
KNOWN_CLASS3 = "equal_key_genes_order"

KIND_CODE = {"single": 0, "interleaved": 1, "neighbouring": 2, "chemical_hybrid": 3}


# ---------------------------------------------------------------- encoding helpers

def enc_str(text):
    return [len(text)] + [ord(c) for c in text]


def strand_code(strand):
    return 2 if strand is None else int(strand)


def enc_loc(location):
    parts = location.parts
    out = [len(parts)]
    for part in parts:
        out += [int(part.start), int(part.end), strand_code(part.strand)]
    return out


def pos_kind(pos):
    from Bio.SeqFeature import BeforePosition, AfterPosition, ExactPosition
    if isinstance(pos, BeforePosition):
        return 1
    if isinstance(pos, AfterPosition):
        return 2
    if isinstance(pos, ExactPosition):
        return 0
    raise TypeError(type(pos))


def enc_tpart(part):
    return [pos_kind(part.start), int(part.start), pos_kind(part.end), int(part.end), strand_code(part.strand)]


def enc_tloc(location):
    from Bio.SeqFeature import CompoundLocation as BioCompound
    if isinstance(location, BioCompound):
        out = [1] + enc_str(location.operator) + [len(location.parts)]
        for part in location.parts:
            out += enc_tpart(part)
        return out
    return [0] + enc_tpart(location)


def make_tloc(spec):
    """ spec: ("s", part) | ("c", operator, [parts]); part = (kind, value, kind, value, strand) """
    from Bio.SeqFeature import BeforePosition, AfterPosition, ExactPosition
    from antismash.common.secmet.locations import FeatureLocation, CompoundLocation
    mk = {0: ExactPosition, 1: BeforePosition, 2: AfterPosition}

    def part(p):
        return FeatureLocation(mk[p[0]](p[1]), mk[p[2]](p[3]), None if p[4] == 2 else p[4])
    if spec[0] == "s":
        return part(spec[1])
    return CompoundLocation([part(p) for p in spec[2]], operator=spec[1])


def enc_tspec(spec):
    if spec[0] == "s":
        return [0] + list(spec[1])
    out = [1] + enc_str(spec[1]) + [len(spec[2])]
    for p in spec[2]:
        out += list(p)
    return out


# ---------------------------------------------------------------- (a) codec stream

def gen_tpart(rng):
    hi = rng.choice([9, 10, 99, 100, 1000, 10 ** 5, 10 ** 7, 10 ** 12])
    a = rng.randint(0, hi)
    b = a + rng.choice([0, 0, 1, 2, 9, rng.randint(0, hi)])
    return (rng.choice([0, 0, 0, 1, 2]), a, rng.choice([0, 0, 0, 1, 2]), b, rng.choice([1, 1, -1, -1, 0, 2]))


def gen_tspec(rng):
    if rng.random() < 0.5:
        return ("s", gen_tpart(rng))
    return ("c", rng.choice(["join", "join", "order"]), [gen_tpart(rng) for _ in range(rng.choice([2, 2, 3, 5]))])


MUT_ALPHABET = "[]:(){},<>+-?0123456789join"
RISKY = re.compile(r"[\s_][0-9+\-<>]|[0-9][\s_]")


def mutate(rng, text):
    for _ in range(rng.choice([1, 1, 2, 3])):
        if not text:
            break
        i = rng.randrange(len(text))
        r = rng.random()
        if r < 0.4:
            text = text[:i] + text[i + 1:]
        elif r < 0.7:
            text = text[:i] + rng.choice(MUT_ALPHABET) + text[i:]
        else:
            text = text[:i] + rng.choice(MUT_ALPHABET) + text[i + 1:]
    return text


def impl_codec(fn, arg):
    from antismash.common.secmet.locations import location_from_string
    try:
        if fn == 1:
            return enc_str(str(make_tloc(arg)))
        if fn == 2:
            return [0] + enc_tloc(location_from_string(arg))
        if fn == 3:
            return enc_str(str(arg))
        if fn == 4:
            return [0, int(arg)]
    except Exception as exc:  # pylint: disable=broad-except
        return [1, err_code(exc)]
    raise ValueError(fn)


def codec_cases(chk, total):
    rng = chk.rng
    cases, outs = [], []
    bad_roundtrips = []
    for i in range(total):
        r = rng.random()
        spec = None
        if r < 0.25:
            spec = gen_tspec(rng)
            fn, arg, flat = 1, spec, [PROP, 1] + enc_tspec(spec)
            nontrivial = spec[0] == "c" or spec[1][0] or spec[1][2]
        elif r < 0.75:
            spec = gen_tspec(rng)
            text = str(make_tloc(spec))
            if rng.random() < 0.5:
                text = mutate(rng, text)
                spec = None
                chk.count("codec_mutated_text")
            if RISKY.search(text) or "_" in text or re.search(r"[0-9]{18}", text):
                chk.count("codec_skipped_int_syntax_not_modelled")
                continue
            fn, arg, flat = 2, text, [PROP, 2] + enc_str(text)
            nontrivial = True
        elif r < 0.85:
            n = rng.choice([0, 1, 9, 10, 99, 100, 12345, rng.randint(0, 10 ** 9), -rng.randint(0, 10 ** 6),
                            rng.randint(0, 10 ** 17)])
            fn, arg, flat = 3, n, [PROP, 3, n]
            nontrivial = n > 9
        else:
            text = str(rng.choice([0, 7, 10, 105, rng.randint(0, 10 ** 9), rng.randint(0, 10 ** 15)]))
            text = rng.choice(["", "", "", "-", "+", "00"]) + text
            if rng.random() < 0.3:
                text = mutate(rng, text).replace("_", "")
            if re.search(r"[0-9]{18}", text):
                chk.count("codec_skipped_int_syntax_not_modelled")
                continue
            fn, arg, flat = 4, text, [PROP, 4] + enc_str(text)
            nontrivial = len(text) > 1
        out = impl_codec(fn, arg)
        if fn == 2 and spec is not None and out != [0] + enc_tspec(spec) and len(bad_roundtrips) < 3:
            # the property itself: location_from_string(str(location)) is the location
            bad_roundtrips.append(1)
            chk.violation("counterexample", "location_from_string(str(location)) differs from the location",
                          {"theorem_or_correspondence": "C10_loc_codec / location_from_string", "function": 2, "flat": flat,
                           "input": {"location": repr(spec), "text": text}, "implementation": out,
                           "expected": [0] + enc_tspec(spec)})
        cases.append(flat)
        outs.append(out)
        chk.count({1: "codec_str(location)", 2: "codec_location_from_string", 3: "codec_str(int)", 4: "codec_int(str)"}[fn])
        if fn in (2, 4) and out[0] == 1:
            chk.count("codec_error_" + common.ERR_NAME.get(out[1], str(out[1])))
        chk.note_case(flat, nontrivial, {"function": fn, "argument": repr(arg)[:200], "implementation": out[:40]})
    return cases, outs


# ---------------------------------------------------------------- (d) qualifier codec stream

KNOWN_CLASS5 = "gene_function_description_colon"
# repaired (known_findings.json status fixed): nothing is suppressed or skipped for these classes any more, the generators
# keep producing their members and the recorded witnesses are in the regression corpus (ASTOOL_CORPUS, regression_corpus)
REPAIRED_CLASS4 = "sideloaded_tool_prefix_recursion"      # C10-F62
REPAIRED_CLASS6 = "sideloaded_protocluster_core_leak"     # C10-F60
REPAIRED_CLASS7 = "notes_duplicated_on_write"             # C10-F61
REPAIRED_CLASS8 = "pfam_empty_gene_ontologies"            # C10-F64

EXT_PREFIX = "externally annotated"
GF_TOOLS = ["rule-based-clusters", "smcogs", "resist", "t2pks", "lanthipeptides", "mite", "halogenases", "x"]
WORDS = ["pass", "2", "in-house", "pipeline", "v1.0", "alpha", "tool", "of", "the", "lab", "run", "#7", "a/b", "x=y",
         "(beta)", "50%", "semi;colon", "it's", "plus+", "a_b", "[c]", "{d}", "<e>", "core", "KS", "PF00109"]


def awkward_text(rng, long_ok=True):
    """ free text as a sideload JSON may carry it: words joined by single spaces, with ': ', ':', quotes and other
        punctuation in between; no token longer than 40 characters (Biopython breaks longer tokens when it wraps a
        GenBank line and puts a space there on reading: third party), no leading/trailing/double spaces across a
        possible line break """
    r = rng.random()
    if r < 0.25:
        return rng.choice(["manual", "external", "cassis-like", "tool name", "x", "T", "my_tool", "tool.v2"])
    n = rng.choice([1, 2, 2, 3, 4, 6] + ([14, 25] if long_ok else []))
    out = rng.choice(WORDS)
    for _ in range(n - 1):
        out += rng.choice([" ", " ", " ", ": ", ": ", ":", " - ", ", ", ' "', '" ', " '", "; ", " (", ") ", "/"]) + rng.choice(WORDS)
    if rng.random() < 0.15:
        out = '"' + out + '"'
    return out.strip() or "x"


def gen_tool_name(rng):
    r = rng.random()
    if r < 0.04:
        return EXT_PREFIX + rng.choice(["", " by me", " by: someone", ": x", "ly"])       # the repaired recursion class
    if r < 0.10:
        return rng.choice(["a: b", "a: b: c", ": a", "a: ", "a:b", "externally", "external annotation: x", "by: x",
                           "in-house pipeline: pass 2"])
    return awkward_text(rng, long_ok=False)


def real_astool(kind, tool):
    """ the aStool qualifier the real classes write for a sideloaded area """
    from antismash.common.secmet.features.protocluster import SideloadedProtocluster
    from antismash.common.secmet.features.subregion import SideloadedSubRegion, SubRegion
    from antismash.common.secmet.locations import FeatureLocation as FL
    if kind == 0:
        area = SideloadedSubRegion(FL(0, 9, 1), tool=tool)
    elif kind == 1:
        area = SideloadedProtocluster(FL(3, 6, 1), FL(0, 9, 1), tool, "prod")
    else:
        area = SubRegion(FL(0, 9, 1), tool=tool)
    return area.to_biopython()[0].qualifiers["aStool"][0]


def real_astool_decode(kind, text):
    from Bio.SeqFeature import SeqFeature
    from antismash.common.secmet.features import Protocluster, SubRegion
    from antismash.common.secmet.features.protocluster import SideloadedProtocluster
    from antismash.common.secmet.features.subregion import SideloadedSubRegion
    from antismash.common.secmet.locations import FeatureLocation as FL
    try:
        if kind == 0:
            area = SubRegion.from_biopython(SeqFeature(FL(0, 9, 1), type="subregion", qualifiers={"aStool": [text]}))
            side = isinstance(area, SideloadedSubRegion)
        else:
            quals = {"aStool": [text], "neighbourhood": ["0"], "cutoff": ["0"], "product": ["p"],
                     "detection_rule": ["r"], "core_location": ["[3:6](+)"]}
            area = Protocluster.from_biopython(SeqFeature(FL(0, 9, 1), type="protocluster", qualifiers=quals))
            side = isinstance(area, SideloadedProtocluster)
        return [0, int(side)] + enc_str(area.tool)
    except Exception as exc:  # pylint: disable=broad-except
        return [1, err_code(exc)]


GF_ALPHA = "abcXYZ019 :()-_.;,%/'\"[]"


def gen_gfa(rng):
    """ (function code, tool, product or None, description) """
    f = rng.randrange(6)
    tool = rng.choice(GF_TOOLS)
    r = rng.random()
    if r < 0.08:
        tool = rng.choice(["a)b", "two words", " lead", "t(x)", "a:b", "", "tab\tx"])
    product = None
    if f == 1 or rng.random() < 0.25:
        product = rng.choice(["T1PKS", "NRPS", "terpene", "NRPS-like", "x", "a b", "pro:duct", "p(1)"])
    r = rng.random()
    if r < 0.5:
        desc = rng.choice(["PKS_KS", "AMP-binding", "predicted lanthipeptide", "Condensation_LCL", "x", "mod_KS"])
    elif r < 0.75:
        desc = rng.choice(["SMCOG1001", "RF0001", "MITE0000012"]) + ": " + awkward_text(rng, long_ok=False)
    elif r < 0.85:
        desc = rng.choice(["KS (Score: 10.0; E-value: 1e-5)", "a: ", "a:", ":a", ": ", "x: y: z", "(a) b", "a (b) c: d"])
    else:
        desc = awkward_text(rng, long_ok=False)
    return f, tool, product, desc


def enc_gfa(f, tool, product, desc):
    return [f] + enc_str(tool) + ([0] if product is None else [1] + enc_str(product)) + enc_str(desc)


def real_gfa(f, tool, product, desc):
    from antismash.common.secmet.qualifiers.gene_functions import GeneFunction, _GeneFunctionAnnotation
    return _GeneFunctionAnnotation(GeneFunction(f), tool, desc, product)


def real_gfa_parse(text):
    from antismash.common.secmet.qualifiers.gene_functions import _GeneFunctionAnnotation
    try:
        a = _GeneFunctionAnnotation.from_string(text)
        return [0] + enc_gfa(a.function.value, a.tool, a.product, a.description)
    except Exception as exc:  # pylint: disable=broad-except
        return [1, err_code(exc)]


def gfa_guard(f, tool, product, desc):
    """ the guard of C10_gene_function_codec, independently of the model """
    if not tool or any(c.isspace() or c == ")" for c in tool) or not desc or "\n" in desc:
        return False
    if product is not None:
        return bool(product) and ":" not in product and "\n" not in product
    return f != 1 and ":" not in tool and ":" not in desc


def ascii_only(text):
    return all(ord(c) < 127 for c in text)


# regression corpus of the aStool codec, run first: (kind, tool) with kind 0 sideloaded subregion, 1 sideloaded
# protocluster.  The witness of the repaired finding C10-F62 (reading recursed until RecursionError) and its variants
ASTOOL_CORPUS = [(0, "externally annotated by me"), (1, "externally annotated by me"), (0, "externally annotated by: someone"),
                 (1, "externally annotated by: someone"), (0, "externally annotated"), (1, "externally annotated: x"),
                 (0, "externally annotatedly"), (1, "externally annotated by: externally annotated by: x")]


def qualifier_codec_cases(chk, total, colon_listed):
    """ fn 7-12: aStool composition / decomposition, gene function text form, _parse_format on the sec_met domain
        label, number lists.  Returns (cases, outs). """
    from antismash.common.secmet.qualifiers.secmet import SecMetQualifier, _parse_format
    rng = chk.rng
    cases, outs = [], []
    reported = {"tool": 0, "gfa": 0}
    corpus = list(ASTOOL_CORPUS)
    for _ in range(total):
        r = rng.random()
        if corpus or r < 0.22:
            # aStool written by the real classes, compared with the model, and read back (the property on the codec)
            if corpus:
                kind, tool = corpus.pop(0)
                chk.count("qual_astool_regression_corpus")
            else:
                kind = rng.randrange(3)
                tool = gen_tool_name(rng)
            text = real_astool(kind, tool)
            flat = [PROP, 7, int(kind != 2)] + enc_str(tool)
            out = enc_str(text)
            chk.count("qual_astool_write")
            back = real_astool_decode(0 if kind in (0, 2) else 1, text)
            expect = [0, int(kind != 2)] + enc_str(tool)
            if kind != 2 and tool.startswith(EXT_PREFIX):
                chk.count("qual_astool_sideloaded_tool_with_prefix")          # members of the repaired class C10-F62
            if back != expect:
                if kind == 2 and tool.startswith(EXT_PREFIX):
                    # outside the quantifier (the proviso left in C10_astool_codec, C10_astool_marker_reserved): the tool of
                    # an ordinary area is one of antiSMASH's module names, the prefix marks the sideloaded classes
                    chk.count("qual_astool_ordinary_tool_with_reserved_prefix_outside_quantifier")
                elif reported["tool"] < 2:
                    reported["tool"] += 1
                    chk.violation("counterexample", "the tool name of an area is not recovered from its aStool qualifier",
                                  {"theorem_or_correspondence": "C10_astool_codec", "function": 8, "flat": [PROP, 8] + enc_str(text),
                                   "input": {"tool": tool, "kind": ["sideloaded subregion", "sideloaded protocluster",
                                                                    "subregion"][kind], "qualifier": text},
                                   "implementation": back, "expected": expect,
                                   "recovered_tool": "".join(map(chr, back[3:])) if back[0] == 0 else None})
            nontrivial = ": " in tool
        elif r < 0.40:
            kind = rng.randrange(2)
            tool = gen_tool_name(rng)
            text = rng.choice([tool, "externally annotated by: " + tool, "externally annotated by: " + tool,
                               "externally annotated by " + tool, "externally annotated" + tool, mutate_ascii(rng, "externally annotated by: " + tool)])
            flat = [PROP, 8] + enc_str(text)
            out = real_astool_decode(kind, text)
            chk.count("qual_astool_read")
            if out[0] == 1:
                chk.count("qual_astool_read_error_" + common.ERR_NAME.get(out[1], str(out[1])))
            nontrivial = True
        elif r < 0.55:
            f, tool, product, desc = gen_gfa(rng)
            if not ascii_only(tool + desc + (product or "")):
                continue
            try:
                ann = real_gfa(f, tool, product, desc)
            except Exception:  # pylint: disable=broad-except
                chk.count("qual_gene_function_not_constructible")
                continue
            text = str(ann)
            flat = [PROP, 9] + enc_gfa(f, tool, product or None, desc)
            out = enc_str(text)
            chk.count("qual_gene_function_write")
            back = real_gfa_parse(text)
            expect = [0] + enc_gfa(f, tool, product or None, desc)
            guard = gfa_guard(f, tool, product or None, desc)
            if guard:
                chk.count("qual_gene_function_guard_holds")
            if back != expect:
                if guard:
                    if reported["gfa"] < 2:
                        reported["gfa"] += 1
                        chk.violation("counterexample", "a gene function annotation is not recovered from its text form",
                                      {"theorem_or_correspondence": "C10_gene_function_codec", "function": 10,
                                       "flat": [PROP, 10] + enc_str(text),
                                       "input": {"function": f, "tool": tool, "product": product, "description": desc,
                                                 "text": text},
                                       "implementation": back, "expected": expect, "guard": guard})
                elif not product and ":" in desc:
                    chk.count("qual_gene_function_roundtrip_differs_in_class_" + KNOWN_CLASS5)
                    if not colon_listed and reported["gfa"] < 2:
                        reported["gfa"] += 1
                        chk.violation("counterexample", "a gene function without product whose description contains ':' reads "
                                      "back with a product", {"theorem_or_correspondence": "C10_gene_function_codec",
                                                              "function": 10,
                                                              "input": {"function": f, "tool": tool, "description": desc},
                                                              "implementation": back, "expected": expect})
                else:
                    # tool names with ')' or ':' and products with ':' - no antiSMASH module uses such names
                    chk.count("qual_gene_function_roundtrip_differs_outside_guard")
            nontrivial = True
        elif r < 0.75:
            f, tool, product, desc = gen_gfa(rng)
            try:
                text = str(real_gfa(f, tool, product, desc))
            except Exception:  # pylint: disable=broad-except
                text = f"{tool} ({desc})"
            if rng.random() < 0.5:
                text = mutate_ascii(rng, text)
            if not ascii_only(text):
                continue
            flat = [PROP, 10] + enc_str(text)
            out = real_gfa_parse(text)
            chk.count("qual_gene_function_read")
            if out[0] == 1:
                chk.count("qual_gene_function_read_error_" + common.ERR_NAME.get(out[1], str(out[1])))
            nontrivial = True
        elif r < 0.9:
            dom = SecMetQualifier.Domain(rng.choice(["PKS_KS", "AMP-binding", "Condensation_LCL", "a b", "x(1)", "p,q"]),
                                         rng.choice([1e-20, 3.5e-7, 0.0, 1.0, 2.2e-150]), rng.choice([150.3, 20.0, 1234.5, 0.1]),
                                         rng.choice([0, 1, 12, 400]), rng.choice(["rule-based-clusters", "t", "a)b", "x y"]))
            text = str(dom)
            if rng.random() < 0.5:
                text = mutate_ascii(rng, text)
            flat = [PROP, 11] + enc_str(text)
            try:
                groups = list(_parse_format(SecMetQualifier.Domain.qualifier_label, text))
                out = [0, len(groups)] + [x for g in groups for x in enc_str(g)]
            except Exception as exc:  # pylint: disable=broad-except
                out = [1, err_code(exc)]
            chk.count("qual_secmet_domain_read")
            if out[0] == 1:
                chk.count("qual_secmet_domain_read_error_" + common.ERR_NAME.get(out[1], str(out[1])))
            nontrivial = True
        else:
            nums = [rng.choice([1, 2, 9, 10, 11, 99, 100, rng.randint(1, 5000)]) for _ in range(rng.choice([0, 1, 2, 3, 12]))]
            texts = [str(n) for n in nums]
            if rng.random() < 0.3 and texts:
                i = rng.randrange(len(texts))
                texts[i] = rng.choice(["", "x", "1x", "+3", "-2", "007", "1.0"])
            flat = [PROP, 12, len(texts)] + [x for t in texts for x in enc_str(t)]
            try:
                vals = [int(t) for t in texts]
                out = [0, len(vals)] + vals
            except Exception as exc:  # pylint: disable=broad-except
                out = [1, err_code(exc)]
            chk.count("qual_number_list_read")
            nontrivial = len(texts) > 1
        cases.append(flat)
        outs.append(out)
        chk.note_case(flat, nontrivial, {"function": flat[1], "payload": flat[2:40], "implementation": out[:40]})
    return cases, outs


def mutate_ascii(rng, text):
    alphabet = "(): ,-_aE\n\t)x0"
    for _ in range(rng.choice([1, 1, 2])):
        if not text:
            break
        i = rng.randrange(len(text))
        r = rng.random()
        if r < 0.4:
            text = text[:i] + text[i + 1:]
        elif r < 0.7:
            text = text[:i] + rng.choice(alphabet) + text[i:]
        else:
            text = text[:i] + rng.choice(alphabet) + text[i + 1:]
    return text


# ---------------------------------------------------------------- (b) skeleton stream

def area_loc(n, s, e):
    """ [s, e) on a ring of n, e may exceed n (wraps) """
    from antismash.common.secmet.locations import FeatureLocation, CompoundLocation
    if e <= n:
        return FeatureLocation(s, e, 1)
    return CompoundLocation([FeatureLocation(s, n, 1), FeatureLocation(0, e - n, 1)])


def gen_skeleton(rng):
    """ returns (n, circular, protocluster specs, subregion specs, mode) """
    n = rng.choice([300, 1000, 1000, 5000])
    circular = rng.random() < 0.45
    many = rng.random() < 0.12
    k = rng.choice([10, 11, 12, 14]) if many else rng.choice([1, 2, 2, 3, 3, 4, 5, 6])
    protos = []
    pos = rng.randint(0, n // 5)
    for _ in range(k):
        r = rng.random()
        if protos and r < 0.025:
            protos.append(rng.choice(protos))                       # identical extent (the tie class)
            continue
        if protos and r < 0.25:
            ns, cs, ce, ne = rng.choice(protos)                      # same start, other length / nested
            ne2 = max(ce, ne - rng.choice([1, 1, 2, 5]))
            if ne2 == ne:
                ne2 = ne + 3
            protos.append((ns, cs, ce, ne2))
            continue
        nb = rng.choice([0, 0, 5, 20, 50])
        cl = rng.choice([1, 5, 20, 60, n // 6])
        cs = pos + nb
        ce = cs + cl
        ne = ce + nb
        protos.append((pos, cs, ce, ne))
        step = rng.choice([-30, -5, 0, 1, 10, 40, n // 4]) if not many else rng.choice([-5, 1, 10])
        pos = max(0, ne + step) if rng.random() < 0.7 else max(0, pos + rng.choice([0, 1, 7]))
    out = []
    for ns, cs, ce, ne in protos:
        if circular:
            if ne - ns >= n:
                continue
            shift = rng.choice([0, 0, 0, n // 2, n - 40, n - 10])
            if shift:
                ns, cs, ce, ne = ns + shift, cs + shift, ce + shift, ne + shift
            # normalise so that the start is inside the record
            while ns >= n:
                ns, cs, ce, ne = ns - n, cs - n, ce - n, ne - n
        else:
            if ne > n:
                continue
        out.append((ns, cs, ce, ne))
    subs = []
    for _ in range(rng.choice([0, 0, 0, 1, 1, 2])):
        s = rng.randint(0, n - 2)
        e = min(n, s + rng.choice([1, 10, 50, 200]))
        if out and rng.random() < 0.3:
            ns, _cs, _ce, ne = rng.choice(out)
            if ne <= n:
                s, e = ns, ne
        subs.append((s, e))
    mode = "manual" if rng.random() < 0.25 else "create"
    return n, circular, out, subs, mode


def build_skeleton_record(rng, n, circular, protos, subs, mode):
    from antismash.common.secmet import Record
    from antismash.common.secmet.features import Protocluster, SubRegion, CandidateCluster
    from antismash.common.secmet.locations import FeatureLocation
    record = Record("A" * n)
    record.id = record.name = "rec1"
    record.add_annotation("topology", "circular" if circular else "linear")
    record.add_annotation("molecule_type", "DNA")
    for tag, (ns, cs, ce, ne) in enumerate(protos):
        # the core must lie in the record coordinates too: build both with the same wrap rule
        if cs >= n:
            core = FeatureLocation(cs - n, ce - n, 1)
        else:
            core = area_loc(n, cs, ce)
        record.add_protocluster(Protocluster(core, area_loc(n, ns, ne), tool="rule-based-clusters", product=f"p{tag}",
                                             cutoff=20, neighbourhood_range=cs - ns, detection_rule="a and b",
                                             product_category="PKS"))
    for tag, (s, e) in enumerate(subs):
        record.add_subregion(SubRegion(FeatureLocation(s, e, 1), tool="subtool", label=f"s{tag}"))
    if mode == "create":
        record.create_candidate_clusters()
    else:
        stored = record.get_protoclusters()
        kinds = list(CandidateCluster.kinds)
        for _ in range(rng.choice([1, 2, 3])):
            size = rng.choice([1, 1, 2, 3, min(5, len(stored))])
            members = rng.sample(list(stored), min(size, len(stored)))
            if rng.random() < 0.7:
                members.sort(key=lambda p: stored.index(p))
            if not circular:
                # what the pipeline can produce on a linear record: members chained by overlap (see notes: a linear
                # candidate with members more than half the record apart reloads with an origin-spanning location)
                chain = sorted(members, key=lambda p: p.location.start)
                reach = chain[0].location.end
                connected = True
                for p in chain[1:]:
                    if p.location.start > reach:
                        connected = False
                    reach = max(reach, p.location.end)
                if not connected:
                    continue
            record.add_candidate_cluster(CandidateCluster(rng.choice(kinds), members,
                                                          circular_wrap_point=n if circular else None))
    record.create_regions()
    return record


def tag_of(area):
    from antismash.common.secmet.features import Protocluster
    return int((area.product if isinstance(area, Protocluster) else area.label)[1:])


def index_by_identity(items, item):
    for i, other in enumerate(items):
        if other is item:
            return i
    raise ValueError("object not stored in its record")


def enc_record_skeleton(record):
    """ the record's collections in stored order; cross references by POSITION of the referenced object """
    protos = record.get_protoclusters()
    subs = record.get_subregions()
    cands = record.get_candidate_clusters()
    out = [len(protos)]
    for p in protos:
        out += [tag_of(p)] + enc_loc(p.location) + enc_loc(p.core_location)
    out.append(len(subs))
    for s in subs:
        out += [tag_of(s)] + enc_loc(s.location)
    out.append(len(cands))
    for c in cands:
        nums = [index_by_identity(protos, p) + 1 for p in c.protoclusters]
        out += [KIND_CODE[str(c.kind)], len(nums)] + nums + enc_loc(c.location)
    regions = record.get_regions()
    out.append(len(regions))
    for r in regions:
        cn = [index_by_identity(cands, c) + 1 for c in r.candidate_clusters]
        sn = [index_by_identity(subs, s) + 1 for s in r.subregions]
        out += [len(cn)] + cn + [len(sn)] + sn + enc_loc(r.location)
    return out


def file_projection(bio_features):
    """ what the written features say about the collections, per kind in file order """
    protos, subs, cands, regions = [], [], [], []
    for f in bio_features:
        q = f.qualifiers
        if f.type == "protocluster":
            protos.append((q["product"][0], str(f.location), q["core_location"][0], q.get("protocluster_number")))
        elif f.type == "subregion":
            subs.append((q.get("label", [""])[0], str(f.location), q.get("subregion_number")))
        elif f.type == "cand_cluster":
            cands.append((q["kind"][0], tuple(q["protoclusters"]), str(f.location), q.get("candidate_cluster_number")))
        elif f.type == "region":
            regions.append((tuple(q.get("candidate_cluster_numbers", [])), tuple(q.get("subregion_numbers", [])),
                            str(f.location), q.get("region_number")))
    return protos, subs, cands, regions


def enc_order(bio_features):
    protos, subs, cands, regions = file_projection(bio_features)
    po = [int(p[0][1:]) for p in protos]
    so = [int(s[0][1:]) for s in subs]
    co = [int(c[3][0]) - 1 for c in cands]
    ro = [int(r[3][0]) - 1 for r in regions]
    out = []
    for lst in (po, so, co, ro):
        out += [len(lst)] + lst
    return out


def features_text(text):
    """ the feature table and the sequence of a GenBank text (the header is Biopython's business: a record
        built from scratch prints `SOURCE .` the first time and `SOURCE` after a reload) """
    return text[text.index("FEATURES"):]


def roundtrip_genbank(record):
    from Bio import SeqIO
    from antismash.common.secmet import Record
    bio = record.to_biopython()
    buf = io.StringIO()
    SeqIO.write([bio], buf, "genbank")
    text1 = buf.getvalue()
    parsed = list(SeqIO.parse(io.StringIO(text1), "genbank"))[0]
    reloaded = Record.from_biopython(parsed, "bacteria")
    return bio, text1, reloaded


def write_genbank(record):
    from Bio import SeqIO
    buf = io.StringIO()
    bio = record.to_biopython()
    SeqIO.write([bio], buf, "genbank")
    return bio, buf.getvalue()


def roundtrip_json(record):
    from antismash.common import serialiser, json
    bio = record.to_biopython()
    text1 = json.dumps(serialiser.record_to_json(bio))
    reloaded = serialiser.record_from_json(json.loads(text1), "bacteria")
    return bio, text1, reloaded


def write_json(record):
    from antismash.common import serialiser, json
    bio = record.to_biopython()
    return bio, json.dumps(serialiser.record_to_json(bio))


def impl_skeleton(record, path):
    """ -> (encoded output, info) ; output = file order ++ result ++ [same skeleton, same second file] """
    original = enc_record_skeleton(record)
    rt, wr = (roundtrip_genbank, write_genbank) if path == "genbank" else (roundtrip_json, write_json)
    info = {}
    try:
        bio = record.to_biopython()
        order = enc_order(bio.features)
    except Exception as exc:  # pylint: disable=broad-except
        info["error"] = f"writing raised {type(exc).__name__}: {exc}"[:200]
        return [-1, err_code(exc)], info
    try:
        bio1, text1, reloaded = rt(record)
    except Exception as exc:  # pylint: disable=broad-except
        info["error"] = f"{type(exc).__name__}: {exc}"[:200]
        return order + [1, err_code(exc)], info
    new = enc_record_skeleton(reloaded)
    bio2, text2 = wr(reloaded)
    same_file = file_projection(bio1.features) == file_projection(bio2.features)
    if path == "genbank":
        info["text_fixed_point"] = features_text(text1) == features_text(text2)
    else:
        info["text_fixed_point"] = text1 == text2
    info["same"] = new == original
    return order + [0] + new + [int(new == original), int(same_file)], info


def describe_skeleton(flat):
    return {"function": flat[1], "record_length": flat[2], "payload": flat[3:]}


# ---------------------------------------------------------------- (c) whole records

def canon(record):
    out = []
    for f in record.to_biopython().features:
        quals = {k: (list(v) if isinstance(v, (list, tuple)) else v) for k, v in sorted(f.qualifiers.items())}
        out.append((f.type, str(f.location), quals))
    return out


def safe_outline(record):
    try:
        return [(f[0], f[1]) for f in canon(record)]
    except Exception as exc:  # pylint: disable=broad-except
        return f"<cannot be written: {type(exc).__name__}: {exc}>"[:300]


def reproduces(witness):
    try:
        return witness()
    except Exception:  # pylint: disable=broad-except
        return False      # the recorded behaviour is gone; whatever replaced it is judged by the streams above


def gen_whole_record(rng, counts):
    from Bio.SeqFeature import SeqFeature
    from antismash.common.secmet import Record
    from antismash.common.secmet.features import (Protocluster, CDSFeature, SubRegion, PFAMDomain, CDSMotif,
                                                  AntismashDomain, Gene)
    from antismash.common.secmet.features.protocluster import SideloadedProtocluster
    from antismash.common.secmet.features.subregion import SideloadedSubRegion
    from antismash.common.secmet.qualifiers import GOQualifier
    from antismash.common.secmet.qualifiers.gene_functions import GeneFunction
    from antismash.common.secmet.locations import FeatureLocation as FL, CompoundLocation as CL
    n = rng.choice([600, 900, 1500])
    circular = rng.random() < 0.5
    seq = "".join(rng.choice("ACGT") for _ in range(n))
    record = Record(seq)
    record.id = record.name = "rec1"
    record.add_annotation("topology", "circular" if circular else "linear")
    record.add_annotation("molecule_type", "DNA")
    genes = []
    for i in range(rng.randint(2, 7)):
        length = 3 * rng.randint(5, 30)
        start = rng.randrange(0, n - length)
        strand = rng.choice([1, -1])
        loc = FL(start, start + length, strand)
        if circular and rng.random() < 0.15:
            a = 3 * rng.randint(2, 8)
            b = 3 * rng.randint(2, 8)
            parts = [FL(n - a, n, strand), FL(0, b, strand)]
            if strand == -1:
                parts.reverse()
            loc = CL(parts)
            length = a + b
        elif rng.random() < 0.12 and length >= 30:
            third = 3 * (length // 9)
            parts = [FL(start, start + third, strand), FL(start + third + 6, start + length, strand)]
            if strand == -1:
                parts.reverse()
            loc = CL(parts)
            length -= 6
        try:
            if rng.random() < 0.25:
                # a gene read from an input file with /codon_start
                codon_start = rng.choice([1, 2, 3])
                quals = {"locus_tag": [f"g{i}"], "translation": ["M" + "A" * (length // 3 - 2)],
                         "codon_start": [str(codon_start)]}
                if rng.random() < 0.5:
                    quals["note"] = ["from input", "another note"]
                record.add_biopython_feature(SeqFeature(loc, type="CDS", qualifiers=quals))
                cds = record.get_cds_by_name(f"g{i}")
                counts["gene_codon_start_%d" % codon_start] += 1
            else:
                cds = CDSFeature(loc, translation="M" + "A" * (length // 3 - 2), locus_tag=f"g{i}",
                                 protein_id=(f"p{i}" if rng.random() < 0.5 else None),
                                 product=rng.choice(["", "some product", "a rather long product name " * 4]))
                record.add_cds_feature(cds)
            if rng.random() < 0.5:
                cds.gene_functions.add(GeneFunction.CORE, "rule-based-clusters", "dom1", "prodA")
            if rng.random() < 0.3:
                cds.gene_functions.add(GeneFunction.ADDITIONAL, "smcogs", "SMCOG1001: thing")
            if rng.random() < 0.3:
                cds.notes.append("a note")
            if rng.random() < 0.3:
                record.add_gene(Gene(loc, locus_tag=f"g{i}"))
            genes.append(cds)
            if len(loc.parts) > 1:
                counts["gene_compound"] += 1
        except Exception as exc:  # pylint: disable=broad-except
            counts["gen_cds_" + type(exc).__name__] += 1
    for g in genes:
        plen = len(g.location) // 3
        if plen < 5:
            continue
        try:
            if rng.random() < 0.5:
                ps_ = rng.randint(0, plen - 2)
                pe_ = rng.randint(ps_ + 1, plen)
                loc = g.get_sub_location_from_protein_coordinates(ps_, pe_)
                dom = PFAMDomain(loc, "desc", FL(ps_, pe_), "PF00001", "test_tool", g.get_name(), domain="dom")
                dom.version = 1
                dom.domain_id = f"pf_{g.get_name()}_{ps_}_{pe_}"
                if rng.random() < 0.3:      # pfam2go ran and found terms; otherwise the attribute stays None
                    dom.gene_ontologies = GOQualifier(dict(rng.sample([("GO:0004871", "signal transducer activity"),
                                                                        ("GO:0007165", "signal transduction"),
                                                                        ("GO:0016020", "membrane: part of it")],
                                                                       rng.choice([1, 2, 3]))))
                    counts["pfam_domain_with_gene_ontologies"] += 1
                record.add_pfam_domain(dom)
                counts["pfam_domain"] += 1
            if rng.random() < 0.3:
                ps_ = rng.randint(0, plen - 2)
                pe_ = rng.randint(ps_ + 1, plen)
                loc = g.get_sub_location_from_protein_coordinates(ps_, pe_)
                dom = AntismashDomain(loc, "test_tool", FL(ps_, pe_), g.get_name())
                dom.domain_id = f"as_{g.get_name()}_{ps_}_{pe_}"
                dom.domain = "PKS_KS"
                record.add_antismash_domain(dom)
                counts["as_domain"] += 1
            if rng.random() < 0.3:
                ps_ = rng.randint(0, plen - 2)
                pe_ = rng.randint(ps_ + 1, plen)
                loc = g.get_sub_location_from_protein_coordinates(ps_, pe_)
                motif = CDSMotif(loc, g.get_name(), FL(ps_, pe_), tool="test_tool")
                motif.domain_id = f"mo_{g.get_name()}_{ps_}_{pe_}"
                record.add_cds_motif(motif)
                counts["cds_motif"] += 1
        except Exception as exc:  # pylint: disable=broad-except
            counts["gen_domain_" + type(exc).__name__] += 1
    for _ in range(rng.randint(1, 4)):
        cs = rng.randrange(0, n)
        cl = rng.randint(10, n // 4)
        nb = rng.choice([0, 10, 50])
        ns, ce, ne = cs - nb, cs + cl, cs + cl + nb
        if not circular:
            if ns < 0 or ne > n:
                continue
            core, loc = FL(cs, ce, 1), FL(ns, ne, 1)
        else:
            def wrap(a, b):
                a %= n
                b = (b - 1) % n + 1
                return FL(a, b, 1) if a < b else CL([FL(a, n, 1), FL(0, b, 1)])
            core, loc = wrap(cs, ce), wrap(ns, ne)
            if len(core.parts) > 1 and len(loc.parts) == 1:
                continue
        try:
            if rng.random() < 0.2:
                proto = SideloadedProtocluster(core, loc, "exttool", rng.choice(["prodA", "prodX"]),
                                               neighbourhood_range=nb,
                                               extra_qualifiers=rng.choice([{}, {"extra": ["v1", "v2"], "other": ["x"]}]))
                counts["sideloaded_protocluster"] += 1
            else:
                proto = Protocluster(core, loc, tool="rule-based-clusters", product=rng.choice(["prodA", "prodB", "prodC"]),
                                     cutoff=20, neighbourhood_range=nb, detection_rule="a and b", product_category="PKS")
            record.add_protocluster(proto)
            if len(loc.parts) > 1:
                counts["area_origin_spanning"] += 1
        except Exception as exc:  # pylint: disable=broad-except
            counts["gen_proto_" + type(exc).__name__] += 1
    if rng.random() < 0.5:
        s = rng.randrange(0, n - 50)
        try:
            if rng.random() < 0.3:
                record.add_subregion(SideloadedSubRegion(FL(s, s + rng.randint(10, 50), 1), tool="exttool", label="",
                                                         extra_qualifiers=rng.choice([{}, {"extra": ["v"]}])))
                counts["sideloaded_subregion"] += 1
            else:
                record.add_subregion(SubRegion(FL(s, s + rng.randint(10, 50), 1), tool="sub", label=rng.choice(["", "lbl"])))
        except Exception as exc:  # pylint: disable=broad-except
            counts["gen_sub_" + type(exc).__name__] += 1
    enrich(rng, record, genes, counts, n, circular)
    add_exact_annotations(rng, record, genes, counts)
    add_prepeptides(rng, record, n, counts, genes)
    add_alternative_transcripts(rng, record, n, circular, counts, genes)
    add_generic_features(rng, record, n, circular, counts, genes)
    return record


# ---------------------------------------------------------------- (c') awkward but legal annotation values

DEFERRED_MODULES = []       # modules of the record being generated that are added after a first conversion


def enrich(rng, record, genes, counts, n, circular):
    """ adds what gen_whole_record leaves out: sec_met domains, gene functions of every kind, awkward notes,
        modules, sideloaded areas with awkward tool names / labels / extra qualifiers """
    from antismash.common.secmet.features import AntismashDomain, Module, SubRegion
    from antismash.common.secmet.features.module import ModuleType
    from antismash.common.secmet.features.protocluster import SideloadedProtocluster
    from antismash.common.secmet.features.subregion import SideloadedSubRegion
    from antismash.common.secmet.qualifiers.gene_functions import GeneFunction
    from antismash.common.secmet.qualifiers.secmet import SecMetQualifier
    from antismash.common.secmet.locations import FeatureLocation as FL, CompoundLocation as CL
    for g in genes:
        try:
            if rng.random() < 0.35:
                doms = [SecMetQualifier.Domain(name, rng.choice([1e-20, 3.5e-07, 0.0, 2.2e-150, 1.0, -0.0, 5e-324, 1e-300]),
                                               rng.choice([150.3, 20.0, 1234.5, 0.1, 0.0, -0.0, 1e300, 7]), rng.choice([0, 1, 12, 400]),
                                               "rule-based-clusters")
                        for name in rng.sample(["PKS_KS", "AMP-binding", "Condensation_LCL", "mod_KS", "PP-binding"],
                                               rng.choice([1, 2, 3]))]
                g.sec_met = SecMetQualifier(doms)
                counts["cds_sec_met"] += 1
            for _ in range(rng.choice([0, 0, 1, 2])):
                function = rng.choice(list(GeneFunction))
                tool = rng.choice(GF_TOOLS[:-1])
                product = rng.choice(["T1PKS", "NRPS-like", "terpene"]) if function == GeneFunction.CORE or rng.random() < 0.15 \
                    else None
                r = rng.random()
                if r < 0.6:
                    desc = rng.choice(["PKS_KS", "AMP-binding", "predicted lanthipeptide", "Condensation_LCL"])
                elif r < 0.8 and product is None:
                    # what detection/genefunctions writes: "<reference id>: <description>" without product
                    desc = rng.choice(["SMCOG1001", "RF0001", "MITE0000012"]) + ": " + awkward_text(rng).replace(":", "")
                    counts["gene_function_colon_description"] += 1
                else:
                    desc = awkward_text(rng).replace(":", "")
                g.gene_functions.add(function, tool, desc, product)
                counts["gene_function_" + str(function)] += 1
            if rng.random() < 0.25:
                for _ in range(rng.choice([1, 2, 3])):
                    g.notes.append(awkward_text(rng))
                counts["cds_awkward_notes"] += 1
        except Exception as exc:  # pylint: disable=broad-except
            counts["gen_enrich_" + type(exc).__name__] += 1
    # modules over freshly made aSDomains of one gene
    for g in genes:
        plen = len(g.location) // 3
        if plen < 12 or rng.random() > 0.3:
            continue
        try:
            cuts = sorted(rng.sample(range(0, plen), 4))
            doms = []
            for k, (a, b) in enumerate(((cuts[0], cuts[1]), (cuts[2], cuts[3]))):
                if a == b:
                    continue
                dom = AntismashDomain(g.get_sub_location_from_protein_coordinates(a, b), "test_tool", FL(a, b), g.get_name())
                dom.domain_id = f"nrpspksdomains_{g.get_name()}_m{k}_{a}_{b}"
                dom.domain = rng.choice(["PKS_KS", "PKS_AT", "AMP-binding", "PCP"])
                record.add_antismash_domain(dom)
                doms.append(dom)
            if not doms:
                continue
            start = min(d.location.start for d in doms)
            end = max(d.location.end for d in doms)
            if len(g.location.parts) > 1:
                loc = g.get_sub_location_from_protein_coordinates(doms[0].protein_location.start, doms[-1].protein_location.end)
            else:
                loc = FL(start, end, g.location.strand)
            module = Module(loc, doms, module_type=rng.choice(list(ModuleType)), complete=rng.random() < 0.5,
                            starter=rng.random() < 0.2, final=rng.random() < 0.2, iterative=rng.random() < 0.1)
            if rng.random() < 0.5:
                module.add_monomer(rng.choice(["mal", "ala", "X"]), rng.choice(["mal", "d-ala", "redmal"]))
            if rng.random() < 0.3:
                # this module is added only when the record is otherwise complete and has been converted once (see
                # whole_record_stream): the pipeline converts the record more than once (results JSON, record GenBank, one
                # conversion per region file) and what is written LATER must not depend on an earlier conversion
                DEFERRED_MODULES.append(module)
                counts["module_deferred_until_after_a_conversion"] += 1
                continue
            record.add_module(module)
            counts["module"] += 1
        except Exception as exc:  # pylint: disable=broad-except
            counts["gen_module_" + type(exc).__name__] += 1
    # sideloaded areas with awkward names
    for _ in range(rng.choice([0, 1, 1, 2])):
        s = rng.randrange(0, n - 60)
        e = s + rng.randint(10, 50)
        extra = {}
        for _k in range(rng.choice([0, 0, 1, 2, 3])):
            extra["x-" + rng.choice(["conf", "stage", "Evidence.1", "key_9", "a-b"])] = \
                [awkward_text(rng) for _v in range(rng.choice([1, 1, 2, 3]))]
        try:
            if rng.random() < 0.6:
                tool = gen_tool_name(rng)
                label = rng.choice(["", "", awkward_text(rng, long_ok=False)])
                if circular and rng.random() < 0.2:
                    loc = CL([FL(n - rng.randint(5, 40), n, 1), FL(0, rng.randint(5, 40), 1)])
                else:
                    loc = FL(s, e, 1)
                record.add_subregion(SideloadedSubRegion(loc, tool=tool, label=label, extra_qualifiers=extra))
                counts["sideloaded_subregion_awkward"] += 1
                if ": " in tool:
                    counts["sideloaded_subregion_tool_with_colon_space"] += 1
            elif rng.random() < 0.6:
                tool = gen_tool_name(rng)
                nb = rng.choice([0, 0, 5])
                if s - nb < 0 or e + nb > n:
                    continue
                record.add_protocluster(SideloadedProtocluster(FL(s, e, 1), FL(s - nb, e + nb, 1), tool,
                                                               rng.choice(["prodA", "ext-prod", "x_1"]),
                                                               neighbourhood_range=nb, extra_qualifiers=extra))
                counts["sideloaded_protocluster_awkward"] += 1
                if ": " in tool:
                    counts["sideloaded_protocluster_tool_with_colon_space"] += 1
            else:
                record.add_subregion(SubRegion(FL(s, e, 1), tool=rng.choice(["cassis", "sideloader", "tool-2"]),
                                               label=rng.choice(["", awkward_text(rng, long_ok=False)])))
                counts["subregion_awkward_label"] += 1
        except Exception as exc:  # pylint: disable=broad-except
            counts["gen_sideload_" + type(exc).__name__] += 1


# ---------------------------------------------------------------- (c3) falsy but valid attribute values

# e-values: AntismashFeature writes f"{evalue:.2E}", so only values that format keeps can come back at all (three
# significant digits: the precision of the qualifier, stated as generator rule); among them the falsy and the extreme ones
EVALUE_POOL = [0.0, -0.0, 5e-324, 1e-300, 2.5e-250, 3.1e-120, 9.99e-100, 1e-05, 1.0, 12.0, 1.23e+45, 1e300, None, None]
# scores: str(float) keeps every float; integers that look like floats (the setter converts), zeros, tiny, huge, negative
SCORE_POOL = [0.0, -0.0, 0, 5, 5.0, 150.3, 1480.2, -12.5, 5e-324, 1e-300, 1e300, 1e16, 123456789.125, None, None]
# free text of database / detection: quotes, ': ', '=', ';', brackets, longer than a GenBank line (58 characters of
# qualifier text) so that it is wrapped; tokens up to 40 characters, single inner blanks, no leading / trailing blank
# (Biopython's wrapping does not keep those: rule (v)); the empty string is class C10-F66, drawn only in the codec stream
TEXT_POOL = ['say "hi"', "it's", "Pfam-A 35.0", "hmmscan", "a: b", "x=y;z", "(a) [b] {c} <d>", "50% of /it/", "0", "0.0", "None",
             "False", "a rather long database description that does not fit on one line of a GenBank file at all",
             "one two three four five six seven eight nine ten eleven twelve thirteen fourteen", None, None]
# identifiers (label, domain_id suffix): the reader removes blanks on purpose (GenBank wrapping), so no blanks; up to 70
# characters (wrapped and re-joined)
LABEL_POOL = ["PKSI-KS_m1", "0", "x", "A" * 59, "label_" + "y" * 64, "a:b", "it's", "q=1;r=2", None, None]
TRANSLATION_POOL = ["M", "MA", "MKT" * 25, "ACDEFGHIKLMNPQRSTVWY" * 4 + "X", None]
ASF_POOL = ["active site cysteine present", "found motif: C-x(2)-C (scaffold: yes)", "0",
            "KR domain putatively catalyzing D-configuration product formation"]
SUBTYPE_POOL = [[], ["Trans-AT-KS"], ["Iterative-KS", "Enediyne-KS"], ["0"]]
SPECIFICITY_POOL = [[], ["consensus: mal"], ["KR activity: inactive", "KR stereochemistry: (unknown)"], ["0"], ["x" * 40, "a: b: c"]]


def kept_by_evalue_format(value):
    return value is None or repr(float(f"{value:.2E}")) == repr(float(value))


def add_exact_annotations(rng, record, genes, counts):
    """ domain annotations of every class the reader distinguishes (PFAMDomain, AntismashDomain and its registered
        variants ModularDomain / TIGRDomain / RREDomain, CDSMotif) whose qualifier-backed attributes are drawn from the
        pools above: 0.0, -0.0, the smallest and very large floats, integers given where floats are stored, '0', 'None',
        'False' as texts, quotes, texts longer than a GenBank line, empty lists - next to ordinary values and None """
    from antismash.common.secmet.features import AntismashDomain, CDSMotif, PFAMDomain
    from antismash.common.secmet.locations import FeatureLocation as FL
    from antismash.detection.nrps_pks_domains.modular_domain import ModularDomain
    from antismash.detection.tigrfam.tigr_domain import TIGRDomain
    from antismash.modules.rrefinder.rre_domain import RREDomain
    serial = 0
    for g in genes:
        plen = len(g.location) // 3
        if plen < 6 or g.location.crosses_origin() or rng.random() < 0.4:
            continue
        for _ in range(rng.choice([1, 2, 3])):
            serial += 1
            try:
                a = rng.randint(0, plen - 2)
                b = rng.randint(a + 1, plen)
                loc = g.get_sub_location_from_protein_coordinates(a, b)
                name = g.get_name()
                kind = rng.choice(["pfam", "asdomain", "modular", "tigr", "rre", "motif"])
                if kind == "pfam":
                    dom = PFAMDomain(loc, rng.choice(["desc", 'a "quoted" description', "0"]), FL(a, b),
                                     rng.choice(["PF00109", "PF00109.1", "PF13193.35"]), "full_hmmer", name,
                                     domain=rng.choice([None, "ketoacyl-synt", "0"]))
                elif kind == "asdomain":
                    dom = AntismashDomain(loc, rng.choice(["demo_domains", "t"]), FL(a, b), name,
                                          domain=rng.choice([None, "PKS_KS", "0"]))
                elif kind == "modular":
                    dom = ModularDomain(loc, FL(a, b), name)
                    dom.domain = rng.choice(["PKS_KS", "PKS_AT", "AMP-binding"])
                    dom.subtypes = list(rng.choice(SUBTYPE_POOL))
                    dom.specificity = list(rng.choice(SPECIFICITY_POOL))
                elif kind == "tigr":
                    dom = TIGRDomain(loc, rng.choice(["desc", "0", "TIGR: a 'description'"]), FL(a, b), "TIGR00001", name,
                                     domain=rng.choice(["dom", "0"]))
                elif kind == "rre":
                    dom = RREDomain(loc, rng.choice(["desc", "0"]), FL(a, b), rng.choice(["RREFam005.1", "RREFam001.12"]), name,
                                    domain=rng.choice(["Lanthipeptide_RRE", "0"]))
                else:
                    dom = CDSMotif(loc, name, FL(a, b), tool=rng.choice(["demo_motifs", "t"]))
                dom.domain_id = f"ex{serial}_{kind}_{name}_{a}_{b}" + rng.choice(["", "", "_" + "z" * 50])
                evalue = rng.choice(EVALUE_POOL)
                if evalue is not None:
                    assert kept_by_evalue_format(evalue), evalue
                    dom.evalue = evalue
                score = rng.choice(SCORE_POOL)
                if score is not None:
                    dom.score = score
                dom.label = rng.choice(LABEL_POOL)
                dom.database = rng.choice(TEXT_POOL)
                dom.detection = rng.choice(TEXT_POOL)
                translation = rng.choice(TRANSLATION_POOL)
                if translation is not None:
                    dom.translation = translation
                for _k in range(rng.choice([0, 0, 1, 2])):
                    dom.asf.add(rng.choice(ASF_POOL))
                if rng.random() < 0.2:
                    dom.notes.append(rng.choice(["0", "a note", "evalue=0.0"]))
                if kind == "pfam":
                    record.add_pfam_domain(dom)
                elif kind == "motif":
                    record.add_cds_motif(dom)
                else:
                    record.add_antismash_domain(dom)
                counts["exact_" + kind] += 1
                for attr, value in (("evalue", evalue), ("score", score)):
                    if value is not None and value == 0:
                        counts[f"exact_{attr}_zero"] += 1
                    if value is not None and value != 0 and (abs(value) < 1e-299 or abs(value) > 1e299):
                        counts[f"exact_{attr}_extreme"] += 1
            except Exception as exc:  # pylint: disable=broad-except
                counts["gen_exact_" + type(exc).__name__] += 1


PREPEPTIDE_CLASSES = [("lanthipeptide", "lanthipeptides"), ("thiopeptide", "thiopeptides"), ("lassopeptide", "lassopeptides"),
                      ("sactipeptide", "sactipeptides")]


def add_prepeptides(rng, record, n, counts, genes):
    """ RiPP precursor peptides on genes of their own: forward strand, 1-4 exons separated by introns, leader / core /
        tail boundaries inside an exon or exactly on an exon border, so that the introns fall into one, two or three
        sections (leader and core both multi-exon, core and tail, ...).  Outside, said as generator rules: the reverse
        strand (class C10-F68: the location comes back split at the section borders), precursors over the origin (C09's
        F14), exons adjoining without an intron (merged when a border falls between them: C09 O1b), gene lengths that are
        not a multiple of three, peptide_subclass None (class C10-F67; '' is drawn), scores / masses that the two- and
        one-decimal formats do not keep """
    from antismash.common.secmet.features import CDSFeature, Gene, Prepeptide
    from antismash.common.secmet.locations import FeatureLocation as FL, CompoundLocation as CL
    for k in range(rng.choice([0, 1, 1, 2])):
        try:
            exon_count = rng.choice([1, 2, 3, 3, 4])
            la, co, ta = rng.choice([0, 3, 10]), rng.choice([1, 4, 10]), rng.choice([0, 2, 10])
            total = 3 * (la + co + ta)
            # exon lengths: cut the coding sequence at section borders or anywhere
            cuts = set()
            candidates = [3 * la, 3 * (la + co)] + [rng.randrange(1, total) for _ in range(3)]
            rng.shuffle(candidates)
            for c in candidates:
                if 0 < c < total and len(cuts) < exon_count - 1:
                    cuts.add(c)
            bounds = [0] + sorted(cuts) + [total]
            lengths = [b - a for a, b in zip(bounds, bounds[1:])]
            span = total + 40 * len(lengths)
            start = rng.randrange(0, n - span - 1)
            parts, pos = [], start
            for length in lengths:
                parts.append(FL(pos, pos + length, 1))
                pos += length + rng.choice([1, 7, 30])
            location = parts[0] if len(parts) == 1 else CL(parts)
            name = f"pre{k}"
            translation = "M" + "A" * (total // 3 - 1)
            record.add_cds_feature(CDSFeature(location, translation=translation, locus_tag=name))
            if rng.random() < 0.5:
                record.add_gene(Gene(location, locus_tag=name))
            peptide_class, tool = rng.choice(PREPEPTIDE_CLASSES)
            prepeptide = Prepeptide(location, peptide_class, "C" * co, name, tool,
                                    peptide_subclass=rng.choice(["Class I", "Class-II", "Type III", "", "0"]),
                                    score=rng.choice([0.0, -0.0, 0, 12.5, 7.25, -3.0, 26, 1e15]),
                                    monoisotopic_mass=rng.choice([0.0, 1021.4, 0.5, 3000, 1e15]),
                                    molecular_weight=rng.choice([0.0, 1022.1, 2.5, -0.0]),
                                    alternative_weights=rng.choice([None, [], [1040.1, 1058.1], [0.0, 18.0]]),
                                    leader="L" * la, tail="T" * ta)
            record.add_cds_motif(prepeptide)
            genes.append(record.get_cds_by_name(name))
            counts["prepeptide"] += 1
            counts[f"prepeptide_exons_{len(lengths)}"] += 1
            sections = [(0, 3 * la), (3 * la, 3 * (la + co)), (3 * (la + co), total)]
            multi = sum(1 for a, b in sections if any(a < c < b for c in cuts))
            counts[f"prepeptide_sections_with_intron_inside_{multi}"] += 1
            if not la:
                counts["prepeptide_without_leader"] += 1
            if not ta:
                counts["prepeptide_without_tail"] += 1
        except Exception as exc:  # pylint: disable=broad-except
            counts["gen_prepeptide_" + type(exc).__name__] += 1


def set_candidate_structures(rng, record, counts):
    """ SMILES / polymer of candidate clusters (set by nrps_pks after candidate formation): None, the empty string (falsy
        and written, the writer tests `is not None`), ordinary values with the characters SMILES use """
    for cand in record.get_candidate_clusters():
        if rng.random() < 0.5:
            cand.smiles_structure = rng.choice(["", "CC(=O)O", "C[C@H](N)C(=O)O", "NC(C(C)C)C(=O)NC(CS)C(=O)O", "0"])
            counts["candidate_smiles_" + ("empty" if not cand.smiles_structure else "set")] += 1
        if rng.random() < 0.5:
            cand.polymer = rng.choice(["", "(mal) + (ala - X)", "(ohmal - ccmal)", "0"])
            counts["candidate_polymer_" + ("empty" if not cand.polymer else "set")] += 1


# ---------------------------------------------------------------- (c'') generic features, alternative transcripts

# every feature type that Record.add_biopython_feature does not dispatch to a class of its own ends up as a plain Feature;
# "misc_feature" additionally passes the NCBI-Pfam prefilter of Record.from_biopython, "source" becomes a Source, "gene" a
# Gene, "CDS_motif" without aSTool an ExternalCDSMotif.  Qualifier values as Biopython's parser delivers them (a
# qualifier without value, /pseudo, is [""])
GENERIC_TYPES = [
    ("misc_feature", [{}, {"db_xref": ["CDD:12345"]}, {"inference": ["protein motif:PFAM:PF00109"]}]),
    ("misc_feature", [{}]),
    ("regulatory", [{"regulatory_class": ["promoter"]}, {"regulatory_class": ["ribosome_binding_site"]}]),
    ("mobile_element", [{"mobile_element_type": ["insertion sequence:IS1"]}]),
    ("repeat_region", [{"rpt_type": ["inverted"]}, {"rpt_family": ["REP"], "rpt_unit_seq": ["acgtacgt"]}]),
    ("tRNA", [{"product": ["tRNA-Ala"]}, {"product": ["tRNA-Sec"], "pseudo": [""]}]),
    ("rRNA", [{"product": ["16S ribosomal RNA"]}]),
    ("ncRNA", [{"ncRNA_class": ["SRP_RNA"]}]),
    ("misc_RNA", [{}]),
    ("sig_peptide", [{}]),
    ("stem_loop", [{}]),
    ("rep_origin", [{"direction": ["both"]}]),
    ("misc_binding", [{"bound_moiety": ["cobalamin"]}]),
    ("CDS_motif", [{}]),
]


def gen_feature_location(rng, n, circular, strand):
    """ -> (location, shape).  Shapes: single; multi (2-4 exons in transcription order: ascending on the forward strand,
        descending on the reverse strand, as Biopython reads join() / complement(join())); multi_other (the other exon
        order: what location_bridges_origin calls origin-bridging); span (circular only: over the origin, forward
        join(n-a..n,1..b), reverse complement(join(n-a..n,1..b)) = parts [0:b], [n-a:n] - the way NCBI writes it and the way
        antiSMASH builds it), optionally with further exons on either side; span_other (the same exons in the other order,
        which does not cross the origin) """
    from antismash.common.secmet.locations import FeatureLocation as FL, CompoundLocation as CL
    r = rng.random()
    if r < 0.35:
        length = rng.choice([1, 3, 30, 90, rng.randint(1, n // 3)])
        start = rng.randrange(0, n - length + 1) if rng.random() < 0.9 else rng.choice([0, n - length])
        return FL(start, start + length, strand), "single"
    if circular and r < 0.70:
        a, b = rng.choice([1, 3, 10, 40, 50]), rng.choice([1, 3, 10, 40])
        exons = [(n - a, n), (0, b)]
        if rng.random() < 0.4:        # more exons before the origin
            exons.insert(0, (n - a - 30, n - a - rng.choice([1, 10])))
            if rng.random() < 0.3:
                exons.insert(0, (n - a - 60, n - a - 40))
        if rng.random() < 0.4:        # and after it
            exons.append((b + rng.choice([1, 5]), b + 20))
        parts = [FL(s, e, strand) for s, e in exons]
        shape = "span"
        if strand == -1:
            parts.reverse()
        if len(parts) == 2 and rng.random() < 0.3:
            # (with more exons the other order is refused by split_origin_bridging_location: no record read from a file
            # holds such a location - Record.from_biopython refuses it since the repair of C10-F65, see notes, finding 11 -
            # and a record built with one cannot be written; the read-path stream (e) covers those orders)
            parts.reverse()
            shape = "span_other"
        return CL(parts), shape
    count = rng.choice([2, 2, 3, 4])
    cuts = sorted(rng.sample(range(1, n - 1), 2 * count))
    exons = [(cuts[2 * i], cuts[2 * i + 1]) for i in range(count)]
    if rng.random() < 0.15:           # adjacent exons
        exons[1] = (exons[0][1], exons[1][1])
    parts = [FL(s, e, strand) for s, e in exons]
    shape = "multi"
    if strand == -1:
        parts.reverse()
    if len(parts) == 2 and rng.random() < 0.3:
        parts.reverse()
        shape = "multi_other"
    return CL(parts), shape


def add_generic_features(rng, record, n, circular, counts, genes):
    """ generic (non-antiSMASH) features of every type Record.from_biopython treats specially or passes through, both
        strands, all shapes of gen_feature_location; a few share their location with a gene or with each other """
    from Bio.SeqFeature import SeqFeature
    from antismash.common.secmet.features.source import Source
    from antismash.common.secmet.locations import FeatureLocation as FL
    uid = 0
    made = []
    r = rng.random()
    try:
        if r < 0.5:
            record.add_feature(Source(FL(0, n, 1), qualifiers={"organism": ["Streptomyces sp. X"], "mol_type": ["genomic DNA"],
                                                              "db_xref": ["taxon:1931"]}))
            counts["generic_source"] += 1
        elif r < 0.65:
            cut = rng.randrange(1, n - 1)
            record.add_feature(Source(FL(0, cut, 1), qualifiers={"organism": ["A"], "note": ["uid=src1"]}))
            record.add_feature(Source(FL(cut, n, 1), qualifiers={"organism": ["B"], "note": ["uid=src2"]}))
            counts["generic_two_sources"] += 1
    except Exception as exc:  # pylint: disable=broad-except
        counts["gen_source_" + type(exc).__name__] += 1
    for _ in range(rng.choice([2, 3, 4, 6])):
        ftype, qualifier_sets = rng.choice(GENERIC_TYPES)
        strand = rng.choice([1, -1])
        if made and rng.random() < 0.12:
            location, shape = rng.choice(made), "shared_with_generic"        # identical location, other type
        elif genes and rng.random() < 0.12:
            location, shape = rng.choice(genes).location, "shared_with_cds"
        else:
            location, shape = gen_feature_location(rng, n, circular, strand)
        if not circular and len(location.parts) > 1 and location.start == 0 and location.end == n:
            counts["generic_skipped_full_span_on_linear"] += 1     # refused by Record.from_biopython on purpose
            continue
        uid += 1
        try:
            qualifiers = {key: list(val) for key, val in rng.choice(qualifier_sets).items()}
            if rng.random() < 0.15:
                ftype = "gene"
                qualifiers = {"gene": [f"gn{uid}"]}
                if rng.random() < 0.5:
                    qualifiers["locus_tag"] = [f"gl{uid}"]
            qualifiers["note"] = [f"uid=gf{uid}"]
            if rng.random() < 0.3:
                qualifiers["note"].append(rng.choice(["Pfam-A hit", "a note", awkward_text(rng, long_ok=False)]))
            # the way the pipeline gets them: a parsed SeqFeature handed to the record
            record.add_biopython_feature(SeqFeature(location, type=ftype, qualifiers=qualifiers))
            made.append(location)
            counts[f"generic_{ftype}"] += 1
            counts[f"generic_shape_{shape}_{'fwd' if location.strand == 1 else 'rev'}"] += 1
            if location.crosses_origin():
                counts["generic_crosses_origin"] += 1
        except Exception as exc:  # pylint: disable=broad-except
            counts["gen_generic_" + type(exc).__name__] += 1


def add_alternative_transcripts(rng, record, n, circular, counts, genes):
    """ splice variants: two or three CDS features (and their gene) sharing the first exon start and the last exon end
        with different inner exons; on circular records also over the origin; both strands """
    from antismash.common.secmet.features import CDSFeature, Gene
    from antismash.common.secmet.locations import FeatureLocation as FL, CompoundLocation as CL
    if rng.random() > 0.35:
        return
    strand = rng.choice([1, -1])
    tag = f"alt{len(genes)}"
    if circular and rng.random() < 0.4:
        a = 3 * rng.randint(14, 30)
        b = 3 * rng.randint(4, 12)
        # pre-origin exons (n-a .. n) differ inside, the post-origin exon is shared
        first = (n - a, n - a + 12)
        last_pre = (n - 9, n)
        inner = [(n - a + 18, n - a + 24), (n - a + 27, n - a + 33)]
        variants = [[first, inner[0], last_pre, (0, b)], [first, last_pre, (0, b)], [first, inner[1], last_pre, (0, b)]]
        shape = "span"
    else:
        start = rng.randrange(0, n - 200)
        exon = lambda off, length: (start + off, start + off + length)  # noqa: E731
        first, last = exon(0, 3 * rng.randint(3, 8)), exon(150, 3 * rng.randint(3, 8))
        variants = [[first, exon(60, 30), last], [first, last], [first, exon(60, 15), exon(105, 18), last],
                    [first, exon(90, rng.choice([33, 33, 33, 30])), last]]      # (30: same total length = equal sort keys)
        shape = "line"
    rng.shuffle(variants)
    variants = variants[:rng.choice([2, 2, 3])]
    try:
        if rng.random() < 0.6:
            hull = [FL(s, e, strand) for s, e in ([variants[0][0], variants[0][-1]])]
            if strand == -1:
                hull.reverse()
            record.add_gene(Gene(CL(hull), locus_tag=tag))
        for i, exons in enumerate(variants):
            parts = [FL(s, e, strand) for s, e in exons]
            if strand == -1:
                parts.reverse()
            location = CL(parts)
            cds = CDSFeature(location, translation="M" + "A" * max(1, len(location) // 3 - 2), locus_tag=f"{tag}_t{i + 1}")
            record.add_cds_feature(cds)
            genes.append(cds)
        counts[f"alternative_transcripts_{shape}_{'fwd' if strand == 1 else 'rev'}"] += 1
    except Exception as exc:  # pylint: disable=broad-except
        counts["gen_alt_" + type(exc).__name__] += 1


# ---- the sort key of Feature.__lt__ as the property needs it, written independently of the implementation: (start,
# total exon length), the start of an origin-crossing location being (lowest start - highest end) of its pre-origin exons

def oracle_bridges(parts, strand):
    if len(parts) < 2:
        return False
    starts = [p[0] for p in parts]
    if strand == 1:
        return any(a > b for a, b in zip(starts, starts[1:]))
    if strand == -1:
        return any(a < b for a, b in zip(starts, starts[1:]))
    return starts != sorted(starts)


def oracle_feature_key(location):
    parts = [(int(p.start), int(p.end)) for p in location.parts]
    strand = location.strand
    length = sum(e - s for s, e in parts)
    if not oracle_bridges(parts, strand):
        return (min(s for s, _ in parts), length)
    ordered = parts[::-1] if strand == -1 else parts      # transcription order -> coordinate order around the ring
    head = [ordered[0]]
    for part in ordered[1:]:
        if part[0] > head[-1][0]:
            head.append(part)
        else:
            break
    return (min(s for s, _ in head) - max(e for _, e in head), length)


def cds_keys(record):
    return {cds.get_name(): oracle_feature_key(cds.location) for cds in record.get_cds_features()}


def order_within_equal_keys(before, after, keys):
    """ the two name lists differ only by rearranging CDS features whose sort keys are equal (class equal_key_genes_order) """
    return sorted(before) == sorted(after) and len(before) == len(after) and \
        all(keys.get(a) is not None and keys.get(a) == keys.get(b) for a, b in zip(before, after))


# ---- type-exact canonical form of an attribute value: the comparison original vs re-read must tell None from 0.0, 0.0
# from -0.0, 5 from 5.0, "" from None, [] from None (Python's == does not: 0 == 0.0 == -0.0 == False)

def exact(value):
    if value is None or isinstance(value, str):
        return value
    if isinstance(value, bool):
        return f"bool:{value}"
    if isinstance(value, int):
        return f"int:{value}"
    if isinstance(value, float):
        return f"float:{value.hex()} ({value!r})"
    if isinstance(value, (list, tuple)):
        return [exact(v) for v in value]
    if isinstance(value, dict):
        return {k: exact(v) for k, v in value.items()}
    return f"{type(value).__name__}:{value}"


# every qualifier-backed attribute of AntismashFeature / Domain / PFAMDomain / AntismashDomain and its registered variants
# (ModularDomain, TIGRDomain, RREDomain) / CDSMotif / Prepeptide (antismash/common/secmet/features/*.py, to_biopython /
# from_biopython pairs)
DOMAIN_ATTRIBUTES = ("locus_tag", "tool", "domain", "domain_id", "label", "database", "detection", "evalue", "score",
                     "_translation", "created_by_antismash", "identifier", "version", "description", "specificity",
                     "subtypes", "domain_subtype", "peptide_class", "peptide_subclass", "leader", "core", "tail",
                     "monoisotopic_mass", "molecular_weight", "alternative_weights", "type")


def notes_of(feature):
    return sorted(list(feature.notes) + list(feature._qualifiers.get("note") or []))  # pylint: disable=protected-access


def describe_record(record):
    """ the record field by field, read from the objects (to_biopython is not involved) """
    out = {"record": {"sequence": str(record.seq), "circular": record.is_circular(), "length": len(record.seq)}}
    protos = list(record.get_protoclusters())
    subs = list(record.get_subregions())
    cands = list(record.get_candidate_clusters())
    for i, p in enumerate(protos):
        out[f"protocluster {i + 1}"] = {
            "class": type(p).__name__, "location": str(p.location), "core_location": str(p.core_location), "tool": p.tool,
            "product": p.product, "category": p.product_category, "cutoff": p.cutoff, "neighbourhood": p.neighbourhood_range,
            "detection_rule": p.detection_rule, "extra_qualifiers": getattr(p, "extra_qualifiers", None), "notes": notes_of(p),
            "contig_edge": exact(p.contig_edge), "exact": exact([p.cutoff, p.neighbourhood_range, p.product_category, p.tool])}
    for i, s in enumerate(subs):
        out[f"subregion {i + 1}"] = {"class": type(s).__name__, "location": str(s.location), "tool": s.tool, "label": s.label,
                                    "extra_qualifiers": getattr(s, "extra_qualifiers", None), "notes": notes_of(s),
                                    "contig_edge": exact(s.contig_edge), "exact": exact([s.tool, s.label])}
    for i, c in enumerate(cands):
        out[f"candidate {i + 1}"] = {"location": str(c.location), "kind": str(c.kind), "smiles": c.smiles_structure,
                                    "polymer": c.polymer, "contig_edge": exact(c.contig_edge),
                                    "exact": exact([c.smiles_structure, c.polymer]),
                                    "protoclusters": [index_by_identity(protos, p) + 1 for p in c.protoclusters]}
    for i, r in enumerate(record.get_regions()):
        out[f"region {i + 1}"] = {"location": str(r.location),
                                 "candidates": [index_by_identity(cands, c) + 1 for c in r.candidate_clusters],
                                 "subregions": [index_by_identity(subs, s) + 1 for s in r.subregions]}
    out["record"]["cds_order"] = [cds.get_name() for cds in record.get_cds_features()]
    for i, r in enumerate(record.get_regions()):
        out[f"region {i + 1}"]["cds_children"] = [cds.get_name() for cds in r.cds_children]
    for i, src in enumerate(record.get_sources()):
        out[f"source {i + 1}"] = {"location": str(src.location), "notes": notes_of(src),
                                 "qualifiers": {k: v for k, v in src._qualifiers.items() if k != "note"}}  # pylint: disable=protected-access
    for feature in record.get_generics():
        uids = [note for note in notes_of(feature) if note.startswith("uid=")]
        key = f"generic {feature.type} {uids[0] if uids else feature.location}"
        out[key] = {"type": feature.type, "location": str(feature.location), "crosses_origin": feature.crosses_origin(),
                    "parts": [(int(p.start), int(p.end), p.strand) for p in feature.location.parts],
                    "operator": getattr(feature.location, "operator", None), "notes": notes_of(feature),
                    "qualifiers": {k: v for k, v in feature._qualifiers.items() if k != "note"},  # pylint: disable=protected-access
                    "created_by_antismash": feature.created_by_antismash}
    for cds in record.get_cds_features():
        out["CDS " + cds.get_name()] = {
            "crosses_origin": cds.crosses_origin(),
            "parts": [(int(p.start), int(p.end), p.strand) for p in cds.location.parts],
            "location": str(cds.location), "translation": cds.translation, "product": cds.product, "protein_id": cds.protein_id,
            "locus_tag": cds.locus_tag, "gene": cds.gene, "notes": notes_of(cds),
            "codon_start": exact(cds._original_codon_start),  # pylint: disable=protected-access
            "transl_table": exact(cds.transl_table), "exact": exact([cds.product, cds.protein_id, cds.locus_tag, cds.gene]),
            "gene_functions": [(str(a.function), a.tool, a.product or None, a.description) for a in cds.gene_functions],
            "gene_function_texts": [str(a) for a in cds.gene_functions], "gene_kind": str(cds.gene_function),
            "sec_met": [exact([d.name, d.evalue, d.bitscore, d.nseeds, d.tool]) for d in (cds.sec_met or [])],
            "modules": [str(m.location) for m in cds.modules]}
    for g in record.get_genes():
        out[f"gene {g.get_name()} {g.location}"] = {"location": str(g.location), "name": g.get_name(), "notes": notes_of(g),
                                                    "crosses_origin": g.crosses_origin(), "locus_tag": g.locus_tag,
                                                    "gene_name": g.gene_name}
    for kind, items in (("PFAM_domain", record.get_pfam_domains()), ("aSDomain", record.get_antismash_domains()),
                        ("CDS_motif", record.get_cds_motifs())):
        for d in items:
            entry = {"class": type(d).__name__, "location": str(d.location), "protein_location": str(d.protein_location),
                     "notes": notes_of(d), "crosses_origin": d.crosses_origin(),
                     "parts": [(int(p.start), int(p.end), p.strand) for p in d.location.parts]}
            # EVERY qualifier-backed attribute, type-exactly (exact(): None is not 0.0, 0.0 is not -0.0, 5 is not 5.0,
            # "" is not None, [] is not None)
            for attr in DOMAIN_ATTRIBUTES:
                try:
                    val = getattr(d, attr)
                except (AttributeError, ValueError):
                    continue
                entry[attr.lstrip("_")] = exact(val)
            entry["asf"] = list(d.asf.hits)
            # leftover qualifiers, but for the two that are internal bookkeeping of the reader (tool=antismash is how
            # created_by_antismash travels; a PFAM domain's db_xref keeps the GO ids the GOQualifier writes again)
            entry["leftover_qualifiers"] = {k: exact(v) for k, v in d._qualifiers.items()  # pylint: disable=protected-access
                                            if k not in ("note", "tool", "db_xref")}
            if kind == "PFAM_domain":
                # None (no ontologies) is not the same as an empty qualifier: the latter is written as gene_ontologies=[]
                entry["gene_ontologies"] = None if d.gene_ontologies is None else dict(d.gene_ontologies.go_entries)
            uids = [note for note in notes_of(d) if note.startswith("uid=")]
            if type(d).__name__ == "ExternalCDSMotif" and uids:
                # a CDS_motif that is not antiSMASH's own has no name in the file: Record.add_biopython_feature numbers such
                # motifs per (start, end) in arrival order (non_aS_motif_<start>_<end>_<n>); the number is not written and is
                # not part of the comparison, the feature is identified by the note the generator gave it
                entry.pop("domain_id", None)
                out[f"{kind} (external) {uids[0]}"] = entry
                continue
            out[f"{kind} {d.get_name()}"] = entry
    for m in record.get_modules():
        out[f"module {m.location} {m.domains[0].get_name()}"] = {"location": str(m.location), "domains": [d.get_name() for d in m.domains],
                                 "type": str(m.module_type), "complete": m.is_complete(), "starter": m.is_starter_module(),
                                 "final": m.is_final_module(), "iterative": m.is_iterative(),
                                 "monomers": list(m.get_substrate_monomer_pairs()), "parents": list(m.parent_cds_names)}
    return out


def diff_descriptions(before, after):
    """ [(feature, field, before, after)] """
    out = []
    for key in list(before) + [k for k in after if k not in before]:
        a, b = before.get(key), after.get(key)
        if a == b:
            continue
        if a is None or b is None:
            out.append((key, "<feature>", "present" if a else "missing", "present" if b else "missing"))
            continue
        for field in list(a) + [f for f in b if f not in a]:
            if a.get(field) != b.get(field):
                out.append((key, field, a.get(field), b.get(field)))
    return out


def bio_canon(bio):
    return [(f.type, str(f.location), {k: (list(v) if isinstance(v, (list, tuple)) else v) for k, v in sorted(f.qualifiers.items())})
            for f in bio.features]


def json_features(text):
    doc = pyjson.loads(text)
    return doc.get("features"), doc.get("seq")


def colon_function_only(diffs, built_desc):
    """ every difference is a gene function without product whose description holds ':' coming back with a product """
    for key, field, before, after in diffs:
        if not key.startswith("CDS ") or field != "gene_functions":
            return False
        if len(before) != len(after):
            return False
        for x, y in zip(before, after):
            if tuple(x) == tuple(y):
                continue
            if x[2] is None and ":" in x[3] and x[0] == y[0] and x[1] == y[1]:
                continue
            return False
    return bool(diffs)


def canon_cds_name(entry):
    """ the name of a written CDS feature (canon / bio_canon entry), None for other types """
    if entry[0] != "CDS":
        return None
    for key in ("locus_tag", "protein_id", "gene"):
        if entry[2].get(key):
            return entry[2][key][0]
    return None


def order_only_within_equal_cds_keys(canon0, canon1, keys):
    """ the second feature list is the first one with CDS features of equal sort keys rearranged, nothing else """
    if len(canon0) != len(canon1) or sorted(map(repr, canon0)) != sorted(map(repr, canon1)):
        return False
    for a, b in zip(canon0, canon1):
        if a == b:
            continue
        ka, kb = keys.get(canon_cds_name(a)), keys.get(canon_cds_name(b))
        if ka is None or ka != kb:
            return False
    return True


def has_note_overlap(record):
    """ a feature holding notes both in its leftover qualifiers and in .notes (Feature.to_biopython extends the former
        in place on every call) """
    for f in record.all_features:
        if f.notes and f._qualifiers.get("note"):  # pylint: disable=protected-access
            return True
    return False


def first_write_stage(chk, built, counts, listed):
    """ the freshly built record (what the pipeline holds before it writes anything): field by field against its
        reloaded self through both routes, and first file against the second.  Returns the record re-read from the
        GenBank text (None when that is impossible). """
    from Bio import SeqIO
    from antismash.common.secmet import Record
    from antismash.common import serialiser, json
    if has_note_overlap(built):
        counts["records_with_leftover_and_added_notes"] += 1         # members of the repaired class C10-F61
    before = describe_record(built)
    keys = cds_keys(built)          # Feature.__lt__'s sort key by an independent oracle, never by asking the implementation
    reread = None
    for path in ("genbank", "json"):
        problems = []          # (what, details, class or None)
        try:
            if path == "genbank":
                bio0, text0 = write_genbank(built)
                reloaded = Record.from_biopython(list(SeqIO.parse(io.StringIO(text0), "genbank"))[0], "bacteria")
                reread = reloaded
                bio1, _text1 = write_genbank(reloaded)
                canon0, canon1 = bio_canon(bio0), bio_canon(bio1)
            else:
                bio0, text0 = write_json(built)
                reloaded = serialiser.record_from_json(json.loads(text0), "bacteria")
                bio1, text1 = write_json(reloaded)
                canon0, canon1 = bio_canon(bio0), bio_canon(bio1)
                if canon0 == canon1 and json_features(text0) != json_features(text1):
                    problems.append(("second JSON output differs from the first in its features", None, None))
            after = describe_record(reloaded)
            for one in diff_descriptions(before, after):
                cls = None
                if colon_function_only([one], before):
                    cls = KNOWN_CLASS5
                elif one[1] in ("cds_order", "cds_children") and order_within_equal_keys(one[2], one[3], keys):
                    cls = KNOWN_CLASS3          # CDS features with equal (start, length) keys change places, nothing else
                problems.append(("reloaded record differs field by field",
                                 (one[0], one[1], repr(one[2])[:300], repr(one[3])[:300]), cls))
            if len(canon0) != len(canon1):
                problems.append(("second output differs from the first (not a fixed point)",
                                 ("feature count", len(canon0), len(canon1)), None))
            swap_only = order_only_within_equal_cds_keys(canon0, canon1, keys)
            # class C10-F70: the two outputs hold the same features with the same qualifiers in another order AND the
            # record holds an intransitive triple of the mixed comparison (Gallina class test on types and locations)
            mixed_only = (not swap_only) and listed.get(KNOWN_CLASS70) and same_features_other_order(canon0, canon1) \
                and in_mixed_order_class(built)
            for a, b in zip(canon0, canon1):
                if a == b:
                    continue
                qkeys = sorted(k for k in set(a[2]) | set(b[2]) if a[2].get(k) != b[2].get(k))
                problems.append(("second output differs from the first (not a fixed point)",
                                 (a[0], a[1], b[0], b[1], qkeys, [repr(a[2].get(k))[:120] for k in qkeys],
                                  [repr(b[2].get(k))[:120] for k in qkeys]),
                                 KNOWN_CLASS3 if swap_only else KNOWN_CLASS70 if mixed_only else None))
        except RecursionError:
            areas = list(built.get_subregions()) + list(built.get_protoclusters())
            problems.append(("reload does not terminate (RecursionError)",
                             [a.tool for a in areas if hasattr(a, "extra_qualifiers")], None))
        except Exception as exc:  # pylint: disable=broad-except
            problems.append((f"reload raised {type(exc).__name__}: {exc}"[:200], None, None))
        if not problems:
            counts["first_write_" + path + "_ok"] += 1
            continue
        unexplained = [p for p in problems if p[2] is None or not listed.get(p[2])]
        for cls in sorted({p[2] for p in problems if p[2] is not None and listed.get(p[2])}):
            counts["first_write_" + path + "_differs_in_known_class_" + cls] += 1
        if not unexplained:
            continue
        # the older classes are judged on the whole record
        if all(p[2] is None for p in unexplained):
            older = None
            if listed.get(KNOWN_CLASS) and has_equal_key_areas(built):
                older = KNOWN_CLASS
            elif listed.get(KNOWN_CLASS2) and has_mutually_less_areas(built):
                older = KNOWN_CLASS2
            if older is not None:
                counts["first_write_" + path + "_differs_in_known_class_" + older] += 1
                continue
        what, details, cls = unexplained[0]
        chk.violation("counterexample", f"freshly built record, {path} round trip: {what}"
                      + (f" (class {cls}, not listed as known)" if cls else ""),
                      {"theorem_or_correspondence": f"whole-record {path} round trip (first write)", "details": details,
                       "all_differences": [(p[0], p[1], p[2]) for p in unexplained[:8]],
                       "input": safe_outline(built), "circular": built.is_circular(), "record_length": len(built.seq),
                       "areas": [(type(a).__name__, str(a.location), a.tool, getattr(a, "label", None),
                                  getattr(a, "extra_qualifiers", None))
                                 for a in list(built.get_subregions()) + list(built.get_protoclusters())]})
    return reread


def has_equal_key_areas(record):
    for items in (record.get_protoclusters(), record.get_subregions(), record.get_candidate_clusters()):
        seen = set()
        for item in items:
            key = str(item.location)
            if key in seen:
                return True
            seen.add(key)
    return False


def has_mutually_less_areas(record):
    for items in (record.get_protoclusters(), record.get_subregions(), record.get_candidate_clusters()):
        for i, a in enumerate(items):
            for b in items[i + 1:]:
                if a < b and b < a:
                    return True
    return False


def witness2_reproduces():
    """ circular record: a neighbouring candidate covering the whole record as [0:N] and the origin-spanning single
        candidate of one of its members swap numbers on every reload """
    from antismash.common.secmet import Record
    from antismash.common.secmet.features import Protocluster
    from antismash.common.secmet.locations import FeatureLocation as FL, CompoundLocation as CL
    record = Record("A" * 300)
    record.id = record.name = "rec"
    record.add_annotation("topology", "circular")
    for product, core, loc in (("a", FL(10, 50, 1), CL([FL(249, 300, 1), FL(0, 109, 1)])),
                               ("b", FL(150, 200, 1), FL(89, 260, 1))):
        record.add_protocluster(Protocluster(core, loc, tool="t", product=product, cutoff=1, neighbourhood_range=0,
                                             detection_rule="r"))
    record.create_candidate_clusters()
    record.create_regions()
    before = [str(c.location) for c in record.get_candidate_clusters()]
    _bio, _text, reloaded = roundtrip_json(record)
    return before != [str(c.location) for c in reloaded.get_candidate_clusters()]


def has_equal_key_genes(record):
    keys = list(cds_keys(record).values())
    return len(set(keys)) != len(keys)


def witness3_reproduces():
    """ two genes with the same start and length (opposite strands) are written in the other order after a reload """
    from antismash.common.secmet import Record
    from antismash.common.secmet.features import CDSFeature
    from antismash.common.secmet.locations import FeatureLocation as FL
    record = Record("ACGT" * 30)
    record.id = record.name = "rec"
    record.add_annotation("topology", "linear")
    record.add_cds_feature(CDSFeature(FL(10, 40, 1), translation="M" * 10, locus_tag="a"))
    record.add_cds_feature(CDSFeature(FL(10, 40, -1), translation="M" * 10, locus_tag="b"))
    before = [c.get_name() for c in record.get_cds_features()]
    _bio, _text, reloaded = roundtrip_json(record)
    return before != [c.get_name() for c in reloaded.get_cds_features()]


def whole_record_stream(chk, total, known_listed, known2_listed, known3_listed=False, listed=None):
    import collections
    from Bio import SeqIO
    from antismash.common.secmet import Record
    from antismash.common import serialiser, json
    rng = chk.rng
    counts = collections.Counter()
    setup_failures = []
    # corpus, run first: the minimised member of class C10-F70 goes through the same stage as every generated record (it
    # is excused there only while the class is listed; no random numbers are drawn)
    try:
        first_write_stage(chk, mixed_order_witness_record(), counts, listed or {})
        counts["corpus_mixed_order_witness_record"] += 1
    except Exception as exc:  # pylint: disable=broad-except
        chk.violation("counterexample", f"the corpus record of class {KNOWN_CLASS70} cannot be written: {type(exc).__name__}: {exc}"[:300],
                      {"theorem_or_correspondence": "whole-record round trip (first write), corpus"})
    for _ in range(total):
        state_before = rng.getstate()
        violations_before = len(chk.violations)
        del DEFERRED_MODULES[:]
        built = gen_whole_record(rng, counts)
        try:
            built.create_candidate_clusters()
            built.create_regions()
            set_candidate_structures(rng, built, counts)
            if DEFERRED_MODULES:
                built.to_biopython()                      # an earlier save, its result is not used
                for module in DEFERRED_MODULES:
                    built.add_module(module)
                counts["records_converted_before_their_last_modules_were_added"] += 1
        except Exception as exc:  # pylint: disable=broad-except
            counts["setup_" + type(exc).__name__] += 1   # formation / region defects belong to C05 / C06
            setup_failures.append(f"{type(exc).__name__}: {exc}"[:200])
            continue
        kind = "circular" if built.is_circular() else "linear"
        if len(list(built.all_features)) >= 64:
            counts["records_with_64_or_more_features"] += 1          # sorted() beyond binary insertion (Timsort runs)
            if built.is_circular() and any(src.location.start == 0 and src.location.end == len(built.seq)
                                           for src in built.get_sources()) \
                    and any(len(a.location.parts) > 1 for a in built.get_protoclusters()) \
                    and any(f.crosses_origin() for f in list(built.get_generics()) + list(built.get_cds_features())):
                counts["records_64_plus_with_source_origin_area_and_origin_feature"] += 1   # where C10-F70 shows
        # stage 0: the freshly built record against its reloaded self (fields, first file against second file)
        outline = None
        try:
            first_write_stage(chk, built, counts, listed or {})
            if len(chk.violations) > violations_before and os.environ.get("C10_DUMP_STATE"):
                # debugging aid: the generator state from which the reported record can be rebuilt (gen_whole_record)
                import pickle
                with open(os.environ["C10_DUMP_STATE"] + f".{counts['dumped_states']}", "wb") as handle:
                    pickle.dump(state_before, handle)
                counts["dumped_states"] += 1
        except Exception as exc:  # pylint: disable=broad-except
            chk.violation("counterexample", f"a generated record cannot be written: {type(exc).__name__}: {exc}"[:300],
                          {"theorem_or_correspondence": "whole-record round trip (first write)"})
            continue
        if any(getattr(a, "extra_qualifiers", None) is not None and a.tool.startswith(EXT_PREFIX)
               for a in list(built.get_subregions()) + list(built.get_protoclusters())):
            counts["records_with_sideloaded_tool_prefix"] += 1          # members of the repaired class C10-F62
        try:
            # the record under test is obtained by parsing once: header annotations in Biopython's normal form
            _bio, text0 = write_genbank(built)
            record = Record.from_biopython(list(SeqIO.parse(io.StringIO(text0), "genbank"))[0], "bacteria")
        except Exception as exc:  # pylint: disable=broad-except
            counts["first_parse_" + type(exc).__name__] += 1
            if has_equal_key_areas(built):
                counts["first_parse_failed_in_tie_class"] += 1
                continue
            chk.violation("counterexample", "a generated record cannot be reloaded from its own GenBank text",
                          {"theorem_or_correspondence": "whole-record GenBank round trip", "error": repr(exc)[:300],
                           "input": safe_outline(built)})
            continue
        counts[kind + "_records"] += 1
        chk.evaluations += 1
        ties = has_equal_key_areas(record)
        if ties:
            counts["records_with_equal_key_areas"] += 1
        try:
            d0 = canon(record)
        except Exception as exc:  # pylint: disable=broad-except
            chk.violation("counterexample", f"a reloaded record cannot be written: {type(exc).__name__}: {exc}"[:300],
                          {"theorem_or_correspondence": "whole-record GenBank round trip",
                           "first_text": text0[:3000]})
            continue
        for path in ("genbank", "json"):
            try:
                if path == "genbank":
                    _b, text1, reloaded = roundtrip_genbank(record)
                    _b2, text2 = write_genbank(reloaded)
                else:
                    _b, text1, reloaded = roundtrip_json(record)
                    _b2, text2 = write_json(reloaded)
                d1 = canon(reloaded)
                problem = None
                order_only = d0 != d1 and sorted(map(repr, d0)) == sorted(map(repr, d1))
                if d0 != d1:
                    diffs = [(a[0], a[1], b[0], b[1], [k for k in set(a[2]) | set(b[2]) if a[2].get(k) != b[2].get(k)])
                             for a, b in zip(d0, d1) if a != b]
                    problem = ("reloaded record differs", diffs[:4], len(d0), len(d1))
                elif text1 != text2:
                    problem = ("second output differs from the first (not a fixed point)", None, 0, 0)
                if reloaded.is_circular() != record.is_circular() or str(reloaded.seq) != str(record.seq):
                    problem = ("sequence or topology changed", None, 0, 0)
            except Exception as exc:  # pylint: disable=broad-except
                problem = (f"reload raised {type(exc).__name__}: {exc}"[:200], None, 0, 0)
                order_only = False
            if problem is None:
                counts[path + "_ok"] += 1
                continue
            if ties and known_listed:
                counts[path + "_differs_in_known_class_equal_key_areas"] += 1
                continue
            if known3_listed and order_only and order_only_within_equal_cds_keys(d0, d1, cds_keys(record)):
                counts[path + "_feature_order_differs_in_known_class_" + KNOWN_CLASS3] += 1
                continue
            if known2_listed and has_mutually_less_areas(record):
                counts[path + "_differs_in_known_class_" + KNOWN_CLASS2] += 1
                continue
            if (listed or {}).get(KNOWN_CLASS70) and order_only and in_mixed_order_class(record):
                counts[path + "_feature_order_differs_in_known_class_" + KNOWN_CLASS70] += 1
                continue
            chk.violation("counterexample", f"whole-record {path} round trip: {problem[0]}",
                          {"theorem_or_correspondence": f"whole-record {path} round trip", "details": repr(problem[1])[:1500],
                           "input": [(f[0], f[1]) for f in d0], "circular": record.is_circular(),
                           "record_length": len(record.seq)})
    if len(setup_failures) > max(5, total // 10):
        chk.violation("broken-correspondence", f"{len(setup_failures)} of {total} generated whole records could not be set up",
                      {"theorem_or_correspondence": "whole-record generator", "first_errors": setup_failures[:5]})
    for key, val in sorted(counts.items()):
        chk.count("whole_" + key, val)


# ---------------------------------------------------------------- (e) read path of single features, CDS order

READ_TYPES = {0: ["misc_feature"], 1: ["regulatory", "repeat_region", "tRNA", "rRNA", "mobile_element", "misc_RNA", "source",
                                       "sig_peptide"], 2: ["gene"]}


def make_loc(parts):
    from antismash.common.secmet.locations import FeatureLocation as FL, CompoundLocation as CL
    made = [FL(s, e, None if st == 2 else st) for s, e, st in parts]
    return made[0] if len(made) == 1 else CL(made)


def gen_read_parts(rng, n, circular):
    """ parts [(start, end, strand code)] of a location as a GenBank file or the results JSON can hold it: the shapes of
        gen_feature_location, plus exons inside other exons (what the NCBI-Pfam prefilter removes), three and more exons in
        either order, shared ends, ends beyond the record, strand 0 / None / mixed """
    strand = rng.choice([1, 1, -1, -1, -1, 0, 2])
    location, _shape = gen_feature_location(rng, n, circular or rng.random() < 0.3, 1 if strand not in (1, -1) else strand)
    parts = [(int(p.start), int(p.end), strand) for p in location.parts]
    r = rng.random()
    if r < 0.25 and len(parts) >= 2:
        # a redundant exon inside an existing one (or covering one), anywhere in the list
        s0, e0, _ = rng.choice(parts)
        if e0 - s0 >= 3:
            inner = (s0 + rng.choice([0, 1]), e0 - rng.choice([1, 2]), strand)
            parts.insert(rng.randrange(len(parts) + 1), inner)
    elif r < 0.35 and len(parts) >= 2:
        parts.reverse()
    elif r < 0.40 and len(parts) >= 2:
        rng.shuffle(parts)
    elif r < 0.44 and len(parts) >= 2:
        i = rng.randrange(len(parts))
        parts[i] = (parts[i][0], parts[i][1], -parts[i][2] if parts[i][2] in (1, -1) else 1)     # mixed strands
    elif r < 0.47:
        parts[-1] = (parts[-1][0], parts[-1][1] + n, parts[-1][2])                              # beyond the record
    elif r < 0.50 and len(parts) >= 2:
        parts[0] = (min(parts[0][0], parts[1][1] - 1), parts[1][1], parts[0][2])                # shared end
    return [p for p in parts if 0 <= p[0] <= p[1]] or [(0, 1, 1)]


def flat_parts(parts):
    out = [len(parts)]
    for p in parts:
        out += list(p)
    return out


def impl_read_feature(n, circular, ty, type_name, parts):
    from Bio.Seq import Seq
    from Bio.SeqFeature import SeqFeature
    from Bio.SeqRecord import SeqRecord
    from antismash.common.secmet import Record
    try:
        bio = SeqRecord(Seq("A" * n), id="rec1", name="rec1")
        bio.annotations["topology"] = "circular" if circular else "linear"
        bio.annotations["molecule_type"] = "DNA"
        quals = {"gene": ["x"]} if ty == 2 else {"note": ["n"]}
        bio.features.append(SeqFeature(make_loc(parts), type=type_name, qualifiers=quals))
        record = Record.from_biopython(bio, "bacteria")
        held = list(record.get_genes()) + list(record.get_generics()) + list(record.get_sources())
        return [0] + enc_loc(held[0].location)
    except Exception as exc:  # pylint: disable=broad-except
        return [1, err_code(exc)]


def impl_read_then_write(n, circular, type_name, parts):
    """ the repaired finding C10-F65 as a property of the real code: a record read from a file that holds the feature, a
        plain second feature and a CDS - and then receives two overlapping subregions, as a sideloaded run would add them -
        is either refused by Record.from_biopython (SecmetInvalidInputError) or can be written: sorted(all_features) with
        Feature.__lt__ and CDSCollection.__lt__ does not raise.  Returns ("refused" | "written" | "unwritable", detail) """
    from Bio.Seq import Seq
    from Bio.SeqFeature import SeqFeature
    from Bio.SeqRecord import SeqRecord
    from antismash.common.secmet import Record
    from antismash.common.secmet.errors import SecmetInvalidInputError
    from antismash.common.secmet.features import SubRegion
    from antismash.common.secmet.locations import FeatureLocation as FL
    bio = SeqRecord(Seq("ATGAAACCC" * (n // 9 + 1))[:n], id="rec1", name="rec1")
    bio.annotations["topology"] = "circular" if circular else "linear"
    bio.annotations["molecule_type"] = "DNA"
    location = make_loc(parts)
    quals = {"gene": ["x"]} if type_name == "gene" else {"note": ["n"]}
    if type_name == "CDS":
        quals = {"locus_tag": ["w"], "translation": ["M" * max(1, len(location) // 3)]}
    bio.features.append(SeqFeature(location, type=type_name, qualifiers=quals))
    bio.features.append(SeqFeature(FL(n // 2, n // 2 + 11, 1), type="misc_feature", qualifiers={"note": ["plain"]}))
    bio.features.append(SeqFeature(FL(n // 3, n // 3 + 30, -1), type="CDS",
                                   qualifiers={"locus_tag": ["plain"], "translation": ["M" * 10]}))
    try:
        record = Record.from_biopython(bio, "bacteria")
    except SecmetInvalidInputError as exc:
        return "refused", str(exc)[:200]
    except Exception as exc:  # pylint: disable=broad-except
        return "read_raised_" + type(exc).__name__, str(exc)[:200]       # not this property's business (fn 14 compares errors)
    try:
        record.add_subregion(SubRegion(FL(n // 2, n - 5, 1), tool="t"))
        record.add_subregion(SubRegion(FL(n // 10, n - 20, 1), tool="t"))
        record.to_biopython()
    except Exception as exc:  # pylint: disable=broad-except
        return "unwritable", f"{type(exc).__name__}: {exc}"[:300]
    return "written", None


def oracle_nested_free(parts):
    for i, a in enumerate(parts):
        for j, b in enumerate(parts):
            if i != j and a[0] <= b[0] <= b[1] <= a[1]:
                return False
    return True


def read_path_cases(chk, total):
    """ fn 13 location_bridges_origin with / without allow_reversing (answer and the location afterwards); fn 14
        Record.from_biopython on a record holding one feature (the location the record then holds); fn 15 CDS features added
        one by one (the stored order).  The property is evaluated on the real code as well: a location without redundant
        exons comes back unchanged, reading what was read changes nothing, re-adding the stored CDS list keeps its order. """
    from antismash.common.secmet import Record
    from antismash.common.secmet.features import CDSFeature
    from antismash.common.secmet.locations import location_bridges_origin
    rng = chk.rng
    cases, outs = [], []
    reported = {"read": 0, "idem": 0, "cds": 0, "write": 0}
    corpus = [  # the seeded defect 6 and its neighbours: NCBI-style reverse-strand feature over the origin, every type
        (600, True, ty, [(0, 40, -1), (550, 600, -1)]) for ty in (0, 1, 2)] + [
        (600, True, 0, [(550, 600, 1), (0, 40, 1)]), (600, True, 0, [(550, 600, -1), (0, 40, -1)]),
        (600, True, 0, [(60, 70, -1), (0, 40, -1), (550, 600, -1), (500, 520, -1)]),
        (600, True, 0, [(550, 600, 1), (0, 40, 1), (10, 20, 1)]), (600, False, 2, [(100, 200, -1), (300, 400, -1)]),
        (600, False, 0, [(100, 200, -1), (300, 400, -1)])]
    for _ in range(total):
        r = rng.random()
        if corpus or r < 0.45:
            if corpus:
                n, circular, ty, parts = corpus.pop(0)
                chk.count("read_corpus")
            else:
                n = rng.choice([300, 600, 1000])
                circular = rng.random() < 0.6
                ty = rng.choice([0, 0, 0, 1, 1, 2])
                parts = gen_read_parts(rng, n, circular)
            type_name = rng.choice(READ_TYPES[ty])
            flat = [PROP, 14, n, int(circular), ty] + flat_parts(parts)
            out = impl_read_feature(n, circular, ty, type_name, parts)
            chk.count("read_feature_" + type_name)
            # accepted on reading => can be written (C10_read_is_sortable / C10_read_features_compare), on the real code,
            # also as a CDS or a CDS_motif (feature types the model does not cover)
            for written_as in [type_name] + ([rng.choice(["CDS", "CDS_motif"])] if len(parts) > 1 else []):
                verdict, detail = impl_read_then_write(n, circular, written_as, parts)
                chk.count("read_then_write_" + verdict)
                if verdict == "unwritable" and reported["write"] < 3:
                    reported["write"] += 1
                    chk.violation("counterexample", f"a {written_as} feature is accepted by Record.from_biopython "
                                  f"({'circular' if circular else 'linear'} record of {n}) and the record can then not be "
                                  f"written: {parts}: {detail}",
                                  {"theorem_or_correspondence": "C10_read_features_compare / Record.from_biopython then "
                                   "Record.to_biopython (class unsortable_exon_order_accepted)", "function": 14, "flat": flat,
                                   "input": {"record_length": n, "circular": circular, "type": written_as, "parts": parts,
                                             "other_features": "misc_feature, CDS, two subregions"},
                                   "error": detail, "text": str(make_loc(parts))})
            if out[0] == 1:
                chk.count("read_feature_error_" + common.ERR_NAME.get(out[1], str(out[1])))
            else:
                held = [tuple(out[2 + 3 * i:5 + 3 * i]) for i in range(out[1])]
                writable = oracle_nested_free(parts) and not (ty == 2 and not circular and
                                                              oracle_bridges(parts, parts[0][2] if len({p[2] for p in parts}) == 1 else 2))
                if writable:
                    chk.count("read_feature_writable_location")
                if held != [tuple(p) for p in parts]:
                    chk.count("read_feature_location_changed_on_reading")
                    if writable and reported["read"] < 3:
                        reported["read"] += 1
                        chk.violation("counterexample", f"reading a {type_name} feature changes its location "
                                      f"({'circular' if circular else 'linear'} record of {n}): {parts} -> {held}",
                                      {"theorem_or_correspondence": "C10_read_keeps_location / Record.from_biopython", "function": 14,
                                       "flat": flat, "implementation": out,
                                       "input": {"record_length": n, "circular": circular, "type": type_name, "parts": parts},
                                       "location_after_reading": held,
                                       "text_before": str(make_loc(parts)), "text_after": str(make_loc(held))})
                again = impl_read_feature(n, circular, ty, type_name, held)
                if again != out and reported["idem"] < 3:
                    reported["idem"] += 1
                    chk.violation("counterexample", f"reading a {type_name} feature twice gives two different locations: "
                                  f"{parts} -> {held} -> {again}",
                                  {"theorem_or_correspondence": "Record.from_biopython is idempotent on locations", "function": 14,
                                   "flat": flat, "implementation": out, "second_reading": again,
                                   "input": {"record_length": n, "circular": circular, "type": type_name, "parts": parts}})
            nontrivial = len(parts) > 1
        elif r < 0.70:
            n = rng.choice([300, 600])
            parts = gen_read_parts(rng, n, rng.random() < 0.6)
            allow = rng.random() < 0.5
            flat = [PROP, 13, int(allow)] + flat_parts(parts)
            try:
                location = make_loc(parts)
                answer = location_bridges_origin(location, allow_reversing=allow)
                out = [int(answer)] + enc_loc(location)
                if not allow and enc_loc(location) != flat_parts(parts) and reported["read"] < 3:
                    reported["read"] += 1
                    chk.violation("counterexample", "location_bridges_origin(allow_reversing=False) changed its argument",
                                  {"theorem_or_correspondence": "C10_bridges_test_is_pure", "function": 13, "flat": flat,
                                   "implementation": out, "input": {"parts": parts}})
            except Exception as exc:  # pylint: disable=broad-except
                out = [-1, err_code(exc)]
            chk.count("bridges_origin_allow_reversing" if allow else "bridges_origin_plain")
            if out[0] == 1:
                chk.count("bridges_origin_true")
            if out[0] >= 0 and out[1:] != flat_parts(parts):
                chk.count("bridges_origin_reversed_in_place")
            nontrivial = len(parts) > 1
        else:
            n = 3000
            locs = gen_cds_set(rng, n)
            flat = [PROP, 15, len(locs)] + [x for parts in locs for x in flat_parts(parts)]
            stored = None
            try:
                record = Record("A" * n)
                for i, parts in enumerate(locs):
                    location = make_loc(parts)
                    record.add_cds_feature(CDSFeature(location, translation="M" * max(1, len(location) // 3), locus_tag=f"c{i}"))
                stored = [[(int(p.start), int(p.end), strand_code(p.strand)) for p in c.location.parts]
                          for c in record.get_cds_features()]
                out = [0, len(stored)] + [x for parts in stored for x in flat_parts(parts)]
            except Exception as exc:  # pylint: disable=broad-except
                out = [1, err_code(exc)]
            chk.count("cds_order_lists")
            if stored is not None:
                keys = [oracle_feature_key(make_loc(parts)) for parts in stored]
                if len(set(keys)) != len(keys):
                    chk.count("cds_order_lists_with_equal_keys")     # members of the repaired class C10-F47: judged like the rest
                if True:
                    # the fixed point on the real code: re-adding the stored list in stored order keeps the order
                    # (C10_cds_reload_fixed_point: whatever the keys)
                    again = Record("A" * n)
                    for i, parts in enumerate(stored):
                        location = make_loc(parts)
                        again.add_cds_feature(CDSFeature(location, translation="M" * max(1, len(location) // 3), locus_tag=f"c{i}"))
                    back = [[(int(p.start), int(p.end), strand_code(p.strand)) for p in c.location.parts]
                            for c in again.get_cds_features()]
                    if back != stored and reported["cds"] < 3:
                        reported["cds"] += 1
                        chk.violation("counterexample", "CDS features change places when "
                                      f"the stored list is re-added in stored order: {stored} -> {back}",
                                      {"theorem_or_correspondence": "C10_cds_reload_fixed_point / Record.add_cds_feature", "function": 15,
                                       "flat": [PROP, 15, len(stored)] + [x for parts in stored for x in flat_parts(parts)],
                                       "implementation": out, "input": {"cds_locations_in_arrival_order": locs},
                                       "stored": stored, "stored_after_readding": back, "sort_keys": keys})
            elif True:
                chk.count("cds_order_error_" + common.ERR_NAME.get(out[1], str(out[1])))
            nontrivial = len(locs) > 1
        cases.append(flat)
        outs.append(out)
        chk.note_case(flat, nontrivial, {"function": flat[1], "payload": flat[2:40], "implementation": out[:40]})
    return cases, outs


def gen_cds_set(rng, n):
    """ 2-6 CDS locations (parts lists): ordinary genes, alternative transcripts sharing start and end, origin-crossing genes,
        genes with equal (start, length) keys (kept in arrival order since the repair of C10-F47), and now and then an exon
        order Feature.__lt__ refuses (add_cds_feature called directly: reading refuses such a location) """
    out = []
    seen = set()

    def add(parts):
        key = tuple(parts)
        if key not in seen and len({p[1] for p in parts}) == len(parts):
            seen.add(key)
            out.append(parts)
    for _ in range(rng.choice([1, 2, 2, 3])):
        strand = rng.choice([1, -1])
        r = rng.random()
        start = 3 * rng.randrange(0, (n - 400) // 3)
        if r < 0.35:
            add([(start, start + 3 * rng.randint(5, 40), strand)])
        elif r < 0.75:
            first, last = (start, start + 3 * rng.randint(3, 8)), (start + 150, start + 150 + 3 * rng.randint(3, 8))
            variants = [[first, (start + 60, start + 90), last], [first, last], [first, (start + 60, start + 75), (start + 105, start + 120), last],
                        [first, (start + 90, start + 123), last], [first, (start + 93, start + 123), last]]
            rng.shuffle(variants)
            for exons in variants[:rng.choice([2, 2, 3])]:
                parts = [(s, e, strand) for s, e in exons]
                add(parts[::-1] if strand == -1 else parts)
        elif r < 0.92:
            a, b = 3 * rng.randint(14, 30), 3 * rng.randint(4, 12)
            first, last_pre = (n - a, n - a + 12), (n - 9, n)
            variants = [[first, (n - a + 18, n - a + 24), last_pre, (0, b)], [first, last_pre, (0, b)], [(n - a, n), (0, b)],
                        [(n - a, n), (0, b + 3)]]
            rng.shuffle(variants)
            for exons in variants[:rng.choice([1, 2, 3])]:
                parts = [(s, e, strand) for s, e in exons]
                add(parts[::-1] if strand == -1 else parts)
        else:
            add([(start + 200, start + 230, 1), (start + 100, start + 130, 1), (start, start + 30, 1)])     # refused order
            add([(start, start + 30, -strand)])
    rng.shuffle(out)
    return out[:6]


# ---------------------------------------------------------------- (f) optional qualifiers against the model (fn 16-21)

KNOWN_CLASS66 = "empty_string_attribute_read_as_none"       # C10-F66
KNOWN_CLASS67 = "prepeptide_subclass_none_written_valueless"  # C10-F67
KNOWN_CLASS68 = "reverse_prepeptide_location_split"          # C10-F68
KNOWN_CLASS69 = "identifier_version_zero_dropped"            # C10-F69

# kinds of fn 16 / 17 (the "is not None" pattern; the text form is Python's own formatting of the value - third party -
# computed by the harness, the model moves the text)
OPTQ_KINDS = ["aSDomain.evalue", "aSDomain.score", "PFAM_domain.evalue", "PFAM_domain.score", "CDS_motif.evalue",
              "CDS_motif.score", "cand_cluster.SMILES", "cand_cluster.polymer"]
# kinds of fn 18 / 19 (truthiness pattern)
TRUTHY_KINDS = ["aSDomain.database", "aSDomain.detection", "PFAM_domain.database", "CDS_motif.detection", "aSDomain.label",
                "CDS_motif.label"]
QUALIFIER_KEY = {"evalue": "evalue", "score": "score", "SMILES": "SMILES", "polymer": "polymer", "database": "database",
                 "detection": "detection", "label": "label"}


def enc_opt_str(value):
    return [0] if value is None else [1] + enc_str(value)


def enc_qual(values):
    """ a qualifier as the dictionary holds it: None (absent) or the list of its values """
    if values is None:
        return [0]
    out = [1, len(values)]
    for v in values:
        out += enc_str(str(v))
    return out


def make_domain_feature(kind):
    from antismash.common.secmet.features import AntismashDomain, CDSMotif, PFAMDomain
    from antismash.common.secmet.locations import FeatureLocation as FL
    if kind.startswith("aSDomain"):
        dom = AntismashDomain(FL(9, 39, 1), "tool", FL(3, 13), "g", domain="D")
    elif kind.startswith("PFAM_domain"):
        dom = PFAMDomain(FL(9, 39, 1), "desc", FL(3, 13), "PF00001.1", "tool", "g")
    else:
        dom = CDSMotif(FL(9, 39, 1), "g", FL(3, 13), tool="tool")
    dom.domain_id = "d1"
    return dom


def make_candidate():
    from antismash.common.secmet.features import Protocluster
    from antismash.common.secmet.locations import FeatureLocation as FL
    record = plain_record()
    record.add_protocluster(Protocluster(FL(20, 30, 1), FL(10, 40, 1), tool="t", product="a", cutoff=1, neighbourhood_range=10,
                                         detection_rule="r"))
    record.create_candidate_clusters()
    return record.get_candidate_clusters()[0]


def number_text(attr, value):
    """ the text form the writer gives a float attribute (Python's formatting: third party) """
    return f"{float(value):.2E}" if attr == "evalue" else str(float(value))


def real_optq_write(kind, value):
    """ the qualifier the real class writes for the attribute value: (values list or None, re-read attribute) """
    owner, attr = kind.split(".")
    if owner == "cand_cluster":
        cand = make_candidate()
        if attr == "SMILES":
            cand.smiles_structure = value
        else:
            cand.polymer = value
        bio = cand.to_biopython()[0]
        return bio.qualifiers.get(attr), None
    dom = make_domain_feature(kind)
    if value is not None:
        setattr(dom, attr, value)
    bio = dom.to_biopython()[0]
    back = type(dom).from_biopython(bio)
    return bio.qualifiers.get(QUALIFIER_KEY[attr]), getattr(back, attr)


def real_optq_read(kind, values):
    """ the attribute the real reader takes from a feature whose qualifier is absent (None) or holds `values` """
    owner, attr = kind.split(".")
    dom = make_domain_feature(kind)
    bio = dom.to_biopython()[0]
    bio.qualifiers.pop(QUALIFIER_KEY[attr], None)
    if values is not None:
        bio.qualifiers[QUALIFIER_KEY[attr]] = list(values)
    return getattr(type(dom).from_biopython(bio), attr)


def optional_qualifier_cases(chk, total, empty_listed):
    """ fn 16 / 17: attributes written under `is not None` (evalue, score of every domain class; SMILES, polymer of
        candidate clusters) - the qualifier the real writer produces for None, 0.0, -0.0, 0, the smallest / largest floats,
        '' and ordinary values against the model, the implementation's output judged by the Gallina verdict optq_spec_ok
        (fn 116), and the real reader on present / absent / empty qualifiers; the property on the real code: the
        attribute re-read from the written feature is the attribute, type-exactly.  fn 18 / 19: the string attributes
        written under a truthiness test (database, detection, label), '' included (class C10-F66 while listed).
        fn 20 / 21: codon_start from _original_codon_start (0 = codon_start 1 is falsy). """
    from Bio.SeqFeature import SeqFeature
    from antismash.common.secmet.features import Feature
    from antismash.common.secmet.locations import FeatureLocation as FL
    rng = chk.rng
    cases, outs = [], []
    reported = {"num": 0, "str": 0, "codon": 0}
    number_pool = [v for v in EVALUE_POOL + SCORE_POOL if v is not None]
    text_pool = [t for t in TEXT_POOL if t is not None] + ["", "", " ", "0"]
    label_pool = [t for t in LABEL_POOL if t is not None] + ["", ""]
    for _ in range(total):
        r = rng.random()
        nontrivial = True
        try:
            if r < 0.35:
                kind_index = rng.randrange(len(OPTQ_KINDS))
                kind = OPTQ_KINDS[kind_index]
                attr = kind.split(".")[1]
                if attr in ("SMILES", "polymer"):
                    value = rng.choice([None, "", "CC(=O)O", "0", "(mal) + (ala - X)", 'a "b"'])
                    text = value
                else:
                    value = rng.choice([None, None] + number_pool)
                    if attr == "evalue" and not kept_by_evalue_format(value):
                        continue
                    text = None if value is None else number_text(attr, value)
                written, back = real_optq_write(kind, value)
                flat = [PROP, 16, kind_index] + enc_opt_str(text)
                out = enc_qual(written)
                chk.count("optq_write_" + kind)
                if value is not None and not value:
                    chk.count("optq_write_falsy_value")
                if attr not in ("SMILES", "polymer"):
                    expect = None if value is None else float(value)
                    if exact(back) != exact(expect) and reported["num"] < 3:
                        reported["num"] += 1
                        chk.violation("counterexample", f"{kind} = {value!r} comes back as {back!r} from the feature the real "
                                      f"class writes (qualifier: {written!r})",
                                      {"theorem_or_correspondence": "C10_optional_qualifier_codec / AntismashFeature.to_biopython "
                                       "-> from_biopython", "function": 16, "flat": flat, "implementation": out,
                                       "input": {"attribute": kind, "value": repr(value), "text_form": text},
                                       "written_qualifier": written, "re_read": repr(back)})
                nontrivial = value is not None
            elif r < 0.50:
                kind_index = rng.randrange(6)
                kind = OPTQ_KINDS[kind_index]
                attr = kind.split(".")[1]
                choice = rng.random()
                if choice < 0.25:
                    values = None
                elif choice < 0.32:
                    values = []
                else:
                    value = rng.choice(number_pool)
                    if attr == "evalue" and not kept_by_evalue_format(value):
                        continue
                    values = [number_text(attr, value)] + (["1.0"] if rng.random() < 0.1 else [])
                flat = [PROP, 17, kind_index] + enc_qual(values)
                try:
                    got = real_optq_read(kind, values)
                    out = [0] + enc_opt_str(None if got is None else number_text(attr, got))
                except Exception as exc:  # pylint: disable=broad-except
                    out = [1, err_code(exc)]
                chk.count("optq_read_" + kind)
            elif r < 0.70:
                kind_index = rng.randrange(len(TRUTHY_KINDS))
                kind = TRUTHY_KINDS[kind_index]
                attr = kind.split(".")[1]
                value = rng.choice([None] + (label_pool if attr == "label" else text_pool))
                written, back = real_optq_write(kind, value)
                flat = [PROP, 18, kind_index] + enc_opt_str(value)
                out = enc_qual(written)
                chk.count("truthy_write_" + kind)
                if value == "":
                    chk.count("truthy_write_empty_string_class_" + KNOWN_CLASS66)
                    if back is not None or written is not None:
                        chk.count("truthy_write_empty_string_behaviour_changed")
                    if not empty_listed and back != value and reported["str"] < 3:
                        reported["str"] += 1
                        chk.violation("counterexample", f"{kind} = '' comes back as {back!r} (class {KNOWN_CLASS66}, not "
                                      "listed as known)", {"theorem_or_correspondence": "C10_truthy_string_qualifier_empty_refuted",
                                                           "function": 18, "flat": flat, "implementation": out,
                                                           "input": {"attribute": kind, "value": value}})
                elif back != value and reported["str"] < 3:
                    reported["str"] += 1
                    chk.violation("counterexample", f"{kind} = {value!r} comes back as {back!r} from the feature the real class "
                                  f"writes (qualifier: {written!r})",
                                  {"theorem_or_correspondence": "C10_truthy_string_qualifier_partial / AntismashFeature.to_biopython "
                                   "-> from_biopython", "function": 18, "flat": flat, "implementation": out,
                                   "input": {"attribute": kind, "value": value}, "written_qualifier": written, "re_read": back})
                nontrivial = value is not None
            elif r < 0.80:
                kind_index = rng.randrange(4)            # database / detection: the reader takes the text as it is
                kind = TRUTHY_KINDS[kind_index]
                choice = rng.random()
                values = None if choice < 0.2 else [] if choice < 0.27 else [rng.choice(text_pool)] + (["x"] if rng.random() < 0.1 else [])
                flat = [PROP, 19, kind_index] + enc_qual(values)
                try:
                    out = [0] + enc_opt_str(real_optq_read(kind, values))
                except Exception as exc:  # pylint: disable=broad-except
                    out = [1, err_code(exc)]
                chk.count("truthy_read_" + kind)
            elif r < 0.92:
                value = rng.choice([None, 0, 0, 1, 2])
                feature = Feature(FL(9, 99, rng.choice([1, -1])), "misc_feature")
                feature._original_codon_start = value  # pylint: disable=protected-access
                bio = feature.to_biopython()[0]
                written = bio.qualifiers.get("codon_start")
                flat = [PROP, 20] + ([0] if value is None else [1, value])
                out = enc_qual(written)
                chk.count("codon_start_write")
                nontrivial = value is not None
            else:
                choice = rng.random()
                values = None if choice < 0.25 else [] if choice < 0.3 else [rng.choice(["1", "1", "2", "3"])]
                flat = [PROP, 21] + enc_qual(values)
                quals = {"note": ["n"]}
                if values is not None:
                    quals["codon_start"] = list(values)
                try:
                    got = Feature.from_biopython(SeqFeature(FL(9, 99, 1), type="misc_feature", qualifiers=quals))
                    start = got._original_codon_start  # pylint: disable=protected-access
                    out = [0] + ([0] if start is None else [1, start])
                except Exception as exc:  # pylint: disable=broad-except
                    out = [1, err_code(exc)]
                chk.count("codon_start_read")
        except Exception as exc:  # pylint: disable=broad-except
            chk.count("optq_case_failed_" + type(exc).__name__)
            if reported["codon"] < 2:
                reported["codon"] += 1
                chk.violation("counterexample", f"an optional qualifier cannot be written: {type(exc).__name__}: {exc}"[:300],
                              {"theorem_or_correspondence": "optional qualifier stream (fn 16-21)"})
            continue
        cases.append(flat)
        outs.append(out)
        chk.note_case(flat, nontrivial, {"function": flat[1], "payload": flat[2:40], "implementation": out[:40]})
    return cases, outs


def witness66_reproduces():
    """ an aSDomain whose database (or label, detection) is the empty string comes back with None """
    from antismash.common.secmet.features import AntismashDomain
    dom = make_domain_feature("aSDomain.database")
    dom.database = ""
    back = AntismashDomain.from_biopython(dom.to_biopython()[0])
    return back.database is None


def prepeptide_record(location, **kwargs):
    from antismash.common.secmet.features import CDSFeature, Prepeptide
    record = plain_record()
    record.add_cds_feature(CDSFeature(location, translation="M" * 30, locus_tag="preA"))
    record.add_cds_motif(Prepeptide(location, "sactipeptide", "C" * 10, "preA", "sactipeptides", leader="L" * 10, tail="T" * 10,
                                    **kwargs))
    return record


def witness67_reproduces():
    """ a prepeptide without peptide_subclass (every sactipeptide) is written with a value-less /predicted_class, re-read
        from GenBank with peptide_subclass '' (from JSON with None) and then written as /predicted_class="" """
    from antismash.common.secmet.locations import FeatureLocation as FL
    record = prepeptide_record(FL(90, 180, 1))
    _bio, text1, reloaded = roundtrip_genbank(record)
    _bio2, text2 = write_genbank(reloaded)
    return reloaded.get_cds_motifs()[0].peptide_subclass == "" and features_text(text1) != features_text(text2)


KNOWN_CLASS71 = "long_gene_name_wrapped"                      # C10-F71


def witness71_reproduces():
    """ a CDS whose /gene name has 52 or more characters and no blank (here 58) is wrapped by the GenBank writer, read back
        with a blank at the wrap, the blank becomes '_': the name grows by one character per reload and the second
        GenBank output differs from the first (the JSON route keeps the name) """
    from antismash.common.secmet.features import CDSFeature
    from antismash.common.secmet.locations import FeatureLocation as FL
    record = plain_record()
    record.add_cds_feature(CDSFeature(FL(0, 90, 1), translation="M" * 29, gene="g" * 58))
    _bio, text1, reloaded = roundtrip_genbank(record)
    _bio2, text2 = write_genbank(reloaded)
    gene = reloaded.get_cds_features()[0].gene
    return len(gene) == 59 and gene.replace("_", "") == "g" * 58 and features_text(text1) != features_text(text2)


def witness68_reproduces():
    """ a reverse-strand prepeptide with leader and tail on the single-exon gene [90:180](-) comes back with the location
        join{[150:180](-), [120:150](-), [90:120](-)} """
    from antismash.common.secmet.locations import FeatureLocation as FL
    record = prepeptide_record(FL(90, 180, -1), peptide_subclass="Class I")
    _bio, _text, reloaded = roundtrip_json(record)
    return str(reloaded.get_cds_motifs()[0].location) == "join{[150:180](-), [120:150](-), [90:120](-)}"


def witness69_reproduces():
    """ PFAM identifier PF00001.0: version 0 comes back as None; RREFam005.0: the record cannot be read back """
    from antismash.common.secmet.features import CDSFeature, PFAMDomain
    from antismash.common.secmet.locations import FeatureLocation as FL
    from antismash.modules.rrefinder.rre_domain import RREDomain
    record = plain_record()
    record.add_cds_feature(CDSFeature(FL(9, 39, 1), translation="M" * 10, locus_tag="g"))
    dom = PFAMDomain(FL(9, 21, 1), "desc", FL(0, 4), "PF00001.0", "tool", "g")
    dom.domain_id = "pf1"
    record.add_pfam_domain(dom)
    _bio, _text, reloaded = roundtrip_json(record)
    pfam_lost = dom.version == 0 and reloaded.get_pfam_domains()[0].version is None
    rre = RREDomain(FL(9, 21, 1), "desc", FL(0, 4), "RREFam005.0", "g", domain="X")
    rre.domain_id = "rre1"
    record.add_antismash_domain(rre)
    try:
        roundtrip_json(record)
        rre_lost = False
    except Exception:  # pylint: disable=broad-except
        rre_lost = True
    return pfam_lost and rre_lost


KNOWN_CLASS70 = "mixed_order_not_transitive"                 # C10-F70


def gen_mixed_feature(rng, n):
    """ (kind, parts): kind 2 collection, 1 source, 0 plain feature; locations around the origin of a ring of n, the
        whole record, nested and ordinary ones """
    kind = rng.choice([0, 0, 1, 2, 2])
    r = rng.random()
    strand = 1 if kind else rng.choice([1, -1])
    if r < 0.2 or (kind == 1 and r < 0.6):
        parts = [(0, n, strand)]
    elif r < 0.6:
        a, b = rng.choice([3, 40, 43, 125, 300]), rng.choice([1, 19, 40, 136, 300])
        parts = [(n - a, n, strand), (0, b, strand)]
        if kind == 0 and rng.random() < 0.3:
            parts.insert(0, (n - a - 30, n - a - 10, strand))
        if strand == -1:
            parts.reverse()
    else:
        start = rng.choice([0, 0, 10, 100, n - 125, n - 40, rng.randrange(0, n - 1)])
        parts = [(start, min(n, start + rng.choice([1, 19, 40, 125, 300, n])), strand)]
    return kind, parts


def real_mixed_lt(n, left, right):
    from antismash.common.secmet.features import Feature, SubRegion
    from antismash.common.secmet.features.source import Source

    def make(kind, parts):
        location = make_loc(parts)
        if kind == 2:
            return SubRegion(location, tool="t")
        if kind == 1:
            return Source(location)
        return Feature(location, "misc_feature")
    try:
        return [int(make(*left) < make(*right))]
    except ValueError:
        return [0]          # a comparison that raises counts as "not less" (mixed_lt)


def mixed_order_cases(chk, total):
    """ fn 23: one comparison `a < b` of the mixed list (collection / source / plain feature, real __lt__ methods) against
        mixed_lt; fn 22 is evaluated on the triple (a, b, c) of each case against the three real comparisons """
    rng = chk.rng
    cases, outs = [], []
    n = 900
    for _ in range(total):
        left, right = gen_mixed_feature(rng, n), gen_mixed_feature(rng, n)
        flat = [PROP, 23, left[0]] + flat_parts(left[1]) + [right[0]] + flat_parts(right[1])
        out = real_mixed_lt(n, left, right)
        cases.append(flat)
        outs.append(out)
        chk.count("mixed_lt_%s_%s" % ("csp"[2 - left[0]] if left[0] else "p", "csp"[2 - right[0]] if right[0] else "p"))
        if out == [1]:
            chk.count("mixed_lt_true")
        chk.note_case(flat, len(left[1]) > 1 or len(right[1]) > 1, {"function": 23, "payload": flat[2:40], "implementation": out})
    return cases, outs


def enc_mixed_features(record):
    """ the record's features as the comparison on the mixed list sees them: (kind, location) in all_features order;
        kind 2 collection (CDSCollection.__lt__), 1 source, 0 any other feature (Feature.__lt__) """
    from antismash.common.secmet.features.cdscollection import CDSCollection
    feats = list(record.all_features)
    out = [len(feats)]
    for f in feats:
        kind = 2 if isinstance(f, CDSCollection) else 1 if f.type == "source" else 0
        out += [kind] + enc_loc(f.location)
    return out


def in_mixed_order_class(record):
    """ the class test of C10-F70, evaluated in Gallina (fn 22, has_bad_triple; C10_mixed_class_test_sound) on the record's
        feature types and locations: the record holds features a, b, c - collections and plain features both among them -
        with a < b, b < c and not a < c under the modelled Feature.__lt__ / CDSCollection.__lt__ """
    try:
        return common.run_driver([[PROP, 22] + enc_mixed_features(record)])[0] == [1]
    except Exception:  # pylint: disable=broad-except
        return False


def same_features_other_order(canon0, canon1):
    """ the second feature list is a rearrangement of the first: same features, same qualifiers, another order """
    return len(canon0) == len(canon1) and canon0 != canon1 and sorted(map(repr, canon0)) == sorted(map(repr, canon1))


def mixed_order_witness_record():
    """ circular, 900 bases: source [0:900], 62 misc_features [150+5i:153+5i] added from the last to the first, the
        sig_peptide join{[860:900](+), [0:40](+)}, the protocluster join{[775:900](+), [0:19](+)}: 65 features """
    from Bio.SeqFeature import SeqFeature
    from antismash.common.secmet import Record
    from antismash.common.secmet.features import Protocluster
    from antismash.common.secmet.features.source import Source
    from antismash.common.secmet.locations import FeatureLocation as FL, CompoundLocation as CL
    record = Record("ACGT" * 225)
    record.id = record.name = "rec1"
    record.add_annotation("topology", "circular")
    record.add_annotation("molecule_type", "DNA")
    record.add_feature(Source(FL(0, 900, 1)))
    for i in reversed(range(62)):
        record.add_biopython_feature(SeqFeature(FL(150 + 5 * i, 153 + 5 * i, 1), type="misc_feature",
                                                qualifiers={"note": [f"uid={i}"]}))
    record.add_biopython_feature(SeqFeature(CL([FL(860, 900, 1), FL(0, 40, 1)]), type="sig_peptide",
                                            qualifiers={"note": ["uid=g"]}))
    location = CL([FL(775, 900, 1), FL(0, 19, 1)])
    record.add_protocluster(Protocluster(location, location, tool="t", product="prodA", cutoff=20, neighbourhood_range=0,
                                         detection_rule="a and b"))
    return record


def witness70_reproduces():
    """ circular record of 900 bases with the source [0:900], 62 small misc_features, the sig_peptide
        join{[860:900](+), [0:40](+)} and the protocluster join{[775:900](+), [0:19](+)} (65 features): the first output
        starts source, protocluster, proto_core, sig_peptide, the output of the re-read record protocluster, proto_core,
        sig_peptide, source - same features, another order (GenBank and JSON) """
    record = mixed_order_witness_record()
    bio1, _text, reloaded = roundtrip_json(record)
    first, second = bio_canon(bio1), bio_canon(reloaded.to_biopython())
    return same_features_other_order(first, second) and in_mixed_order_class(record)


# ---------------------------------------------------------------- known finding

def known_entry(cls):
    for entry in common.load_known_findings("C10"):
        if entry.get("class") == cls and entry.get("status") == "known":
            return entry
    return None


def witness_reproduces():
    """ two protoclusters with identical extent swap numbers on reload """
    from antismash.common.secmet import Record
    from antismash.common.secmet.features import Protocluster
    from antismash.common.secmet.locations import FeatureLocation as FL
    record = Record("ACGT" * 100)
    record.id = record.name = "rec"
    record.add_annotation("topology", "linear")
    for product in ("a", "b"):
        record.add_protocluster(Protocluster(FL(20, 30, 1), FL(10, 40, 1), tool="t", product=product, cutoff=1,
                                             neighbourhood_range=10, detection_rule="r"))
    record.create_candidate_clusters()
    record.create_regions()
    before = [p.product for p in record.get_protoclusters()]
    _bio, _text, reloaded = roundtrip_json(record)
    after = [p.product for p in reloaded.get_protoclusters()]
    return before != after


def plain_record(n=400):
    from antismash.common.secmet import Record
    record = Record("ACGT" * (n // 4))
    record.id = record.name = "rec"
    record.add_annotation("topology", "linear")
    record.add_annotation("molecule_type", "DNA")
    return record


def witness4_reproduces():
    """ a sideloaded subregion / protocluster whose tool name starts with 'externally annotated' cannot be read back
        (RecursionError), or not as the same class with the same tool name """
    from antismash.common.secmet.features.protocluster import SideloadedProtocluster
    from antismash.common.secmet.features.subregion import SideloadedSubRegion
    from antismash.common.secmet.locations import FeatureLocation as FL
    tool = "externally annotated by me"
    record = plain_record()
    record.add_subregion(SideloadedSubRegion(FL(10, 40, 1), tool=tool))
    record.add_protocluster(SideloadedProtocluster(FL(120, 130, 1), FL(110, 140, 1), tool, "prodA", neighbourhood_range=10))
    for route in (roundtrip_json, roundtrip_genbank):
        try:
            _bio, _text, reloaded = route(record)
        except RecursionError:
            return True
        areas = list(reloaded.get_subregions()) + list(reloaded.get_protoclusters())
        if [(type(a), a.tool) for a in areas] != [(SideloadedSubRegion, tool), (SideloadedProtocluster, tool)]:
            return True
    return False


def witness5_reproduces():
    """ ADDITIONAL (smcogs) 'SMCOG1001: thing' without product comes back with product SMCOG1001 """
    return real_gfa_parse("biosynthetic-additional (smcogs) SMCOG1001: thing") == [0] + enc_gfa(2, "smcogs", "SMCOG1001", "thing")


def witness6_reproduces():
    """ the proto_core feature of a sideloaded protocluster gains category and core_location on the second write """
    from antismash.common.secmet.features.protocluster import SideloadedProtocluster
    from antismash.common.secmet.locations import FeatureLocation as FL
    record = plain_record()
    record.add_protocluster(SideloadedProtocluster(FL(20, 30, 1), FL(10, 40, 1), "tool", "prodA", neighbourhood_range=10))
    bio1, _text, reloaded = roundtrip_json(record)
    bio2, _text2 = write_json(reloaded)
    core1 = [f for f in bio1.features if f.type == "proto_core"][0]
    core2 = [f for f in bio2.features if f.type == "proto_core"][0]
    return dict(core1.qualifiers) != dict(core2.qualifiers)


def witness7_reproduces():
    """ a CDS read with /note that received another note writes that note once more on every to_biopython call """
    from Bio.SeqFeature import SeqFeature
    from antismash.common.secmet.locations import FeatureLocation as FL
    record = plain_record()
    record.add_biopython_feature(SeqFeature(FL(9, 39, 1), type="CDS", qualifiers={"locus_tag": ["g"], "translation": ["M" * 10],
                                                                                 "note": ["from input"]}))
    record.get_cds_by_name("g").notes.append("added")
    first = [f.qualifiers["note"] for f in record.to_biopython().features if f.type == "CDS"][0]
    second = [f.qualifiers["note"] for f in record.to_biopython().features if f.type == "CDS"][0]
    return list(first) != list(second) or sorted(first) != ["added", "from input"]


def witness8_reproduces():
    """ a PFAM domain without gene ontologies is written without the qualifier, its reloaded self with an empty one """
    from antismash.common.secmet.features import CDSFeature, PFAMDomain
    from antismash.common.secmet.locations import FeatureLocation as FL
    record = plain_record()
    record.add_cds_feature(CDSFeature(FL(9, 39, 1), translation="M" * 10, locus_tag="g"))
    dom = PFAMDomain(FL(9, 21, 1), "desc", FL(0, 4), "PF00001.1", "tool", "g", domain="dom")
    dom.domain_id = "pf1"
    record.add_pfam_domain(dom)
    bio1, _text, reloaded = roundtrip_json(record)
    bio2, _text2 = write_json(reloaded)
    first = [f for f in bio1.features if f.type == "PFAM_domain"][0]
    second = [f for f in bio2.features if f.type == "PFAM_domain"][0]
    return reloaded.get_pfam_domains()[0].gene_ontologies is not None or dict(first.qualifiers) != dict(second.qualifiers)


KNOWN_CLASS9 = "unsortable_exon_order_accepted"      # C10-F65


def witness9_reproduces():
    """ a forward-strand misc_feature join(401..430,201..230,101..130) is accepted by Record.from_biopython, after which the
        record cannot be written: Feature.__lt__ raises ValueError inside sorted(all_features) (repaired: such a location
        is refused on reading with SecmetInvalidInputError) """
    from Bio.Seq import Seq
    from Bio.SeqFeature import SeqFeature
    from Bio.SeqRecord import SeqRecord
    from antismash.common.secmet import Record
    bio = SeqRecord(Seq("ACGT" * 150), id="rec", name="rec")
    bio.annotations["topology"] = "linear"
    bio.annotations["molecule_type"] = "DNA"
    bio.features.append(SeqFeature(make_loc([(400, 430, 1), (200, 230, 1), (100, 130, 1)]), type="misc_feature"))
    bio.features.append(SeqFeature(make_loc([(9, 20, 1)]), type="misc_feature"))
    from antismash.common.secmet.errors import SecmetInvalidInputError
    try:
        record = Record.from_biopython(bio, "bacteria")
    except SecmetInvalidInputError:
        return False                # refused on reading, with the input error of the neighbouring checks: the repair
    try:
        record.to_biopython()
    except ValueError:
        return True
    return False


# regression corpus, run first on every run: the recorded witnesses of the repaired findings (known_findings.json, status
# fixed).  Each function returns True when the defective behaviour is back.
REGRESSION_CORPUS = [("C10-F62", REPAIRED_CLASS4, witness4_reproduces), ("C10-F60", REPAIRED_CLASS6, witness6_reproduces),
                     ("C10-F61", REPAIRED_CLASS7, witness7_reproduces), ("C10-F64", REPAIRED_CLASS8, witness8_reproduces),
                     ("C10-F47", KNOWN_CLASS3, witness3_reproduces), ("C10-F65", KNOWN_CLASS9, witness9_reproduces)]


def regression_corpus(chk):
    for ident, cls, witness in REGRESSION_CORPUS:
        chk.count("regression_corpus_witnesses")
        chk.evaluations += 1
        try:
            back = witness()
            error = None
        except Exception as exc:  # pylint: disable=broad-except
            back, error = True, f"{type(exc).__name__}: {exc}"[:300]
        if back:
            chk.violation("counterexample", f"the witness of the repaired finding {ident} ({cls}) fails again: "
                          + (witness.__doc__ or "").strip(),
                          {"theorem_or_correspondence": "regression corpus (whole-record round trip, real code)",
                           "finding": ident, "class": cls, "witness": witness.__name__, "error": error,
                           "details": (witness.__doc__ or "").strip()})


# ---------------------------------------------------------------- run

RULE = ("(a) codec: text locations with all three position kinds, four strand spellings, join/order with 2-5 parts, values up to "
        "10^12, start == end; location_from_string on printed locations and on 1-3 character mutations of them (texts in "
        "which Python's int() would accept whitespace/underscore syntax that the model does not transcribe are skipped and "
        "counted); str(int)/int(str) incl. signs, leading zeros, values up to 10^17 (the OCaml driver carries 62-bit integers).  (b) skeleton: records of 300-5000 bases, "
        "linear and circular, 1-14 protoclusters (nested, equal starts, identical extents = the tie class, origin-spanning on "
        "circular records), 0-2 subregions, candidates from create_candidate_clusters or hand-built member subsets, regions "
        "from create_regions; every record through the JSON path, one in three also through the GenBank path; non-trivial = "
        "at least two collections of one kind; distinct by flat encoding.  (c) whole records with genes (gene functions, "
        "notes, codon_start 1-3, multi-exon and origin-spanning genes), PFAM/aSDomain/motif features, ordinary and sideloaded "
        "protoclusters and subregions, candidates and regions: canonical dump and text fixed point through both paths "
        "(real code only).  Every whole record additionally carries sec_met domains, gene functions of all six kinds (with "
        "and without product, '<id>: <text>' descriptions), awkward notes, modules over fresh aSDomains with monomers, and "
        "sideloaded subregions / protoclusters / labelled subregions whose tool names, labels and extra qualifier values are "
        "free text (': ', ':', quotes, brackets, up to 25 words so that GenBank wraps them; no token over 40 characters and "
        "no double / leading / trailing space: Biopython's line wrapping does not preserve those); the freshly BUILT record "
        "is compared field by field (attributes read from the objects) with its reloaded self through both routes and its "
        "first output with the second, every difference attributed on its own to a recorded class or reported.  (d) "
        "qualifier codecs against the model: aStool written by the real area classes and read back, gene function text "
        "form written / read (also 1-2 character mutations), _parse_format on the sec_met domain label, number lists.  "
        "Regression corpus, run first: the witnesses of the repaired findings C10-F60, F61, F62, F64 on the real code and "
        "eight sideloaded tool names starting with 'externally annotated' in the aStool stream; the generators keep "
        "producing members of those classes (sideloaded tool names with the prefix, genes with leftover /note plus added "
        "notes, PFAM domains with and without gene ontologies, sideloaded protoclusters) and nothing is suppressed for them; "
        "only the tool name of an ORDINARY area with that prefix (no antiSMASH module has one) is outside the quantifier.  "
        "Every whole record also carries 2-6 generic features (misc_feature incl. NCBI-Pfam-like, regulatory, mobile_element, "
        "repeat_region, tRNA, rRNA, ncRNA, misc_RNA, sig_peptide, stem_loop, rep_origin, misc_binding, external CDS_motif, gene) and "
        "0-2 source features, on both strands, single / multi-exon in either exon order / over the origin (circular) as NCBI and "
        "antiSMASH write it, some sharing their location with a CDS or another feature, and in a third of the records 2-3 "
        "alternative transcripts (CDS sharing first-exon start and last-exon end, also over the origin); compared: parts in order, "
        "strands, crosses_origin, qualifiers, CDS order of the record and of each region; nothing is excused for CDS features with "
        "equal (start, length) keys any more (C10-F47 repaired: they keep their arrival order).  (e) read path against the model: location_bridges_origin with and without allow_reversing "
        "(answer and location afterwards), Record.from_biopython on one-feature records (misc_feature / other generic / gene; "
        "linear and circular; nested exons, shuffled and reversed exon orders, mixed / missing strands, shared ends, ends beyond "
        "the record), CDS features added one by one (alternative transcripts, origin-crossing genes, equal keys, refused exon "
        "orders; the stored list must be a fixed point of re-adding whatever the keys); every fn 14 case is also read as a "
        "record with a second feature, a CDS and - after reading - two sub-regions, as its own type and as CDS / CDS_motif: "
        "refused with SecmetInvalidInputError or written without an exception (C10-F65 repaired); non-trivial = more than "
        "one part / more than one CDS.  Regression corpus also holds the witnesses of C10-F47 and C10-F65.  (f) optional "
        "qualifiers against the model: evalue / score of aSDomain, PFAM_domain, CDS_motif and SMILES / polymer of a candidate "
        "cluster written by the real classes for None, 0.0, -0.0, 0, 5 (int), 5e-324, 1e-300, 1e300 and ordinary values (e-values: "
        "only values the two-decimal scientific format keeps), read back type-exactly (None is not 0.0, 0.0 is not -0.0), and the "
        "real reader on absent / present / empty qualifiers; database / detection / label (truthiness pattern) incl. '' (class "
        "C10-F66), quotes, texts longer than a GenBank line; codon_start from _original_codon_start None / 0 / 1 / 2; the "
        "implementation's written qualifier is judged by the Gallina verdicts optq_spec_ok / truthy_spec_ok.  Whole records "
        "additionally carry 1-3 domain annotations per gene of every class the reader distinguishes (PFAMDomain, "
        "AntismashDomain, ModularDomain, TIGRDomain, RREDomain, CDSMotif) with evalue, score, label, database, detection, "
        "translation, ASF hits, subtypes, specificity, notes drawn from pools of falsy-but-valid and awkward values, 0-2 "
        "prepeptides (four classes; forward strand; 1-4 exons with the introns in one, two or three of leader / core / tail; "
        "with and without leader / tail; subclass '' / '0' / with '-'; scores and masses 0.0, -0.0, integers, 1e15) and "
        "candidate clusters with SMILES / polymer None, '' or set; every qualifier-backed attribute is compared type-exactly "
        "between the built record and its re-read self.  Generator rules (outside, recorded as classes with replayed "
        "witnesses): '' for label / database / detection in whole records (C10-F66), peptide_subclass None (C10-F67), "
        "reverse-strand prepeptides (C10-F68), identifier versions 0 (C10-F69); labels and ids without blanks (the reader "
        "removes blanks on purpose); prepeptide genes not over the origin, exons not adjoining, length a multiple of 3; "
        "e-values / prepeptide scores / masses only as exact as their formats (.2E, .2f, .1f).  (g) the comparison on the mixed "
        "feature list: `a < b` of real Feature / Source / SubRegion objects (whole record, over the origin on both strands, "
        "nested, ordinary locations on a ring of 900) against mixed_lt (fn 23); class C10-F70: a whole record whose second "
        "output differs from the first ONLY in the order of the same features is excused while the class is listed and the "
        "Gallina class test has_bad_triple (fn 22) holds for the record's (kind, location) list; records of 64 and more "
        "features are counted.")


def run(chk):
    import collections
    if not chk.build_and_audit():
        return chk.finish(RULE)
    quick = chk.tier == "quick"
    rng = chk.rng
    regression_corpus(chk)
    entry = known_entry(KNOWN_CLASS)
    entry2 = known_entry(KNOWN_CLASS2)
    entry3 = known_entry(KNOWN_CLASS3)
    known_listed = entry is not None

    # (a) codec
    cases, outs = codec_cases(chk, 20000 if quick else 300000)
    model = common.correspondence(chk, cases, outs, describe=lambda flat: {"function": flat[1], "payload": flat[2:]},
                                  label="location / integer text codec")
    chk.crosscheck_vm(cases, model, k=100 if quick else 600)

    # (d) qualifier codecs
    entry5 = known_entry(KNOWN_CLASS5)
    q_cases, q_outs = qualifier_codec_cases(chk, 6000 if quick else 80000, entry5 is not None)
    q_model = common.correspondence(chk, q_cases, q_outs, describe=lambda flat: {"function": flat[1], "payload": flat[2:]},
                                    label="qualifier codecs (aStool, gene function text, _parse_format, number lists)")
    chk.crosscheck_vm(q_cases, q_model, k=60 if quick else 400)

    # (e) read path of single features (the misc_feature prefilter, add_gene's exon order) and the order of CDS features
    r_cases, r_outs = read_path_cases(chk, 3000 if quick else 40000)
    r_model = common.correspondence(chk, r_cases, r_outs, spec_fn_offset=100,
                                    describe=lambda flat: {"function": flat[1], "payload": flat[2:]},
                                    label="feature locations through Record.from_biopython / CDS order through add_cds_feature")
    chk.crosscheck_vm(r_cases, r_model, k=60 if quick else 400)

    # (f) optional qualifiers: written iff not None (evalue, score, SMILES, polymer, codon_start), truthiness pattern of
    # the string attributes
    entry66 = known_entry(KNOWN_CLASS66)
    o_cases, o_outs = optional_qualifier_cases(chk, 2500 if quick else 30000, entry66 is not None)
    o_model = common.correspondence(chk, o_cases, o_outs, spec_fn_offset=100,
                                    describe=lambda flat: {"function": flat[1], "payload": flat[2:]},
                                    label="optional qualifiers (evalue / score / SMILES / polymer / codon_start written iff not "
                                          "None; database / detection / label written iff truthy)")
    chk.crosscheck_vm(o_cases, o_model, k=60 if quick else 400)

    # (g) the comparison on the mixed list of collections and plain features (class test of C10-F70)
    m_cases, m_outs = mixed_order_cases(chk, 1500 if quick else 15000)
    m_model = common.correspondence(chk, m_cases, m_outs, describe=lambda flat: {"function": flat[1], "payload": flat[2:]},
                                    label="Feature.__lt__ / CDSCollection.__lt__ on the mixed feature list")
    chk.crosscheck_vm(m_cases, m_model, k=40 if quick else 200)

    # (b) skeletons
    total = 6000 if quick else 60000
    sk_cases, sk_outs, sk_infos, guards = [], [], [], []
    build_failures = []
    counts = collections.Counter()
    for i in range(total):
        n, circular, protos, subs, mode = gen_skeleton(rng)
        if not protos and not subs:
            continue
        try:
            record = build_skeleton_record(rng, n, circular, protos, subs, mode)
        except Exception as exc:  # pylint: disable=broad-except
            counts["skeleton_build_failed_" + type(exc).__name__] += 1    # C05 / C06 territory
            build_failures.append(f"{type(exc).__name__}: {exc}"[:200])
            continue
        if record.get_feature_count() >= 64:
            counts["skeleton_skipped_64_or_more_features"] += 1      # beyond binary insertion: Timsort merges, not modelled
            continue
        payload = [n] + enc_record_skeleton(record)
        paths = ["json"] + (["genbank"] if i % 3 == 0 else [])
        for path in paths:
            out, info = impl_skeleton(record, path)
            info["path"] = path
            flat = [PROP, 5] + payload
            sk_cases.append(flat)
            sk_outs.append(out)
            sk_infos.append(info)
            guards.append([PROP, 6] + payload)
            counts["skeleton_" + path] += 1
            counts["skeleton_" + ("circular" if circular else "linear")] += 1
            counts["skeleton_mode_" + mode] += 1
            np_ = len(record.get_protoclusters())
            counts["skeleton_protoclusters_%s" % ("10+" if np_ >= 10 else np_)] += 1
            if any(len(p.location.parts) > 1 for p in record.get_protoclusters()):
                counts["skeleton_origin_spanning"] += 1
            if "error" in info:
                counts["skeleton_reload_error"] += 1
            chk.note_case(flat + [path == "json"], np_ >= 2 or len(record.get_candidate_clusters()) >= 2,
                          {"function": 5, "path": path, "record_length": n, "circular": circular,
                           "protoclusters": [str(p.location) for p in record.get_protoclusters()],
                           "candidates": [(str(c.kind), str(c.location)) for c in record.get_candidate_clusters()],
                           "same_after_reload": info.get("same")})
    if len(build_failures) > max(5, total // 50):
        # formation / region defects of generated layouts (C05, C06) are rare on the unchanged tree; more means that
        # records can no longer be built at all
        chk.violation("broken-correspondence", f"{len(build_failures)} of {total} generated records could not be built",
                      {"theorem_or_correspondence": "skeleton generator", "first_errors": build_failures[:5]})
    sk_model = common.correspondence(chk, sk_cases, sk_outs, spec_fn_offset=100, describe=describe_skeleton,
                                     label="collection skeleton through to_biopython / from_biopython")
    guard_outs = common.run_driver(guards)
    chk.crosscheck_vm(sk_cases, sk_model, k=60 if quick else 300)
    # the property itself on every case
    reported = 0
    for flat, out, info, g in zip(sk_cases, sk_outs, sk_infos, guard_outs):
        guard, no_ties = (g + [0, 0])[0], (g + [0, 0])[1]
        counts["guard_holds" if guard == 1 else "guard_fails"] += 1
        ok = info.get("same") and info.get("text_fixed_point")
        if ok:
            counts["property_holds"] += 1
            continue
        if guard == 1:
            counts["property_fails_under_guard"] += 1
        if no_ties == 0 and known_listed:
            counts["property_fails_in_known_class_equal_key_areas"] += 1
            continue
        if (g + [1] * 5)[4] == 0 and entry2 is not None:
            counts["property_fails_in_known_class_" + KNOWN_CLASS2] += 1
            continue
        counts["property_fails_unattributed"] += 1
        if reported < 3:
            reported += 1
            chk.violation("counterexample", f"{info['path']} round trip changes the record: "
                          + (info.get("error") or ("collections differ" if not info.get("same") else "second text differs")),
                          {"theorem_or_correspondence": "C10_relink / skeleton round trip", "function": 5, "flat": flat,
                           "implementation": out, "input": describe_skeleton(flat), "guard": guard, "no_ties": no_ties})
    for key, val in sorted(counts.items()):
        chk.count(key, val)

    # (c) whole records
    listed = {KNOWN_CLASS: known_listed, KNOWN_CLASS2: entry2 is not None, KNOWN_CLASS3: entry3 is not None,
              KNOWN_CLASS5: entry5 is not None, KNOWN_CLASS70: known_entry(KNOWN_CLASS70) is not None}
    whole_record_stream(chk, 250 if quick else 4000, known_listed, entry2 is not None, entry3 is not None, listed)

    if known_listed and reproduces(witness_reproduces):
        chk.known(entry["what_fails"])
    if entry2 is not None and reproduces(witness2_reproduces):
        chk.known(entry2["what_fails"])
    if entry2 is None and reproduces(witness2_reproduces):
        # regression corpus: the witness of the repaired finding C10-F46 (status fixed: nothing is suppressed for its
        # class in the streams above; theorems C10_lt_asymmetric, C10_relink_whole_record_witness)
        chk.violation("counterexample", "circular record of 300: the candidate cluster covering the whole record as [0:300] and "
                      "the origin-spanning candidate swap numbers on reload (repaired finding " + KNOWN_CLASS2 + " is back)",
                      {"theorem_or_correspondence": "C10_relink_whole_record_witness / regression witness of " + KNOWN_CLASS2,
                       "input": {"record": "circular, 300 bases",
                                 "protoclusters": [("a", "join{[249:300](+), [0:109](+)}", "core [10:50](+)"),
                                                   ("b", "[89:260](+)", "core [150:200](+)")]}})
    if entry3 is not None and reproduces(witness3_reproduces):
        chk.known(entry3["what_fails"])
    if entry5 is not None and reproduces(witness5_reproduces):
        chk.known(entry5["what_fails"])
    # findings of the fourth round (falsy but valid values, prepeptides): the generators keep out of these classes (said in
    # RULE), the recorded witnesses are replayed; a witness of a class that is NOT listed is a counterexample
    for cls, witness in ((KNOWN_CLASS66, witness66_reproduces), (KNOWN_CLASS67, witness67_reproduces),
                         (KNOWN_CLASS68, witness68_reproduces), (KNOWN_CLASS69, witness69_reproduces),
                         (KNOWN_CLASS70, witness70_reproduces), (KNOWN_CLASS71, witness71_reproduces)):
        found = known_entry(cls)
        chk.evaluations += 1
        if not reproduces(witness):
            continue
        if found is not None:
            chk.known(found["what_fails"])
        else:
            chk.violation("counterexample", f"class {cls} (not listed as known): " + (witness.__doc__ or "").strip(),
                          {"theorem_or_correspondence": "whole-record round trip (real code), witness " + witness.__name__,
                           "class": cls, "input": (witness.__doc__ or "").strip()})
    # C10-F65 (unsortable_exon_order_accepted) and C10-F47 (equal_key_genes_order) are repaired: their witnesses run in the
    # regression corpus, the read-path stream checks "accepted on reading => can be written" on every case and the CDS
    # order stream checks the fixed point on every list, equal keys included; nothing is excused for either class
    chk.extra["not_modelled"] = ("Biopython GenBank writer/reader (line wrapping, header), orjson, qualifier codecs of gene-level "
                                 "features: covered by the whole-record stream only")
    return chk.finish(RULE, trusted_extra=("Biopython 1.81 SeqIO GenBank writer/reader and orjson are exercised, not modelled",))


def replay(chk, path):
    doc = pyjson.load(open(path))
    if "flat" in doc:
        print("model:", common.run_driver([doc["flat"]])[0], "recorded implementation:", doc.get("implementation"))
    else:
        print(doc.get("what"), doc.get("details"))
    return 0
