"""C10: annotated records survive the GenBank and the JSON round trip.

Three streams:
 (a) codec: str(location) / location_from_string / str(int) / int(str) against the Coq model (fn 1-4);
 (b) skeleton: real Records holding protoclusters, subregions, candidate clusters and regions go through
     Record.to_biopython -> SeqIO.write -> SeqIO.parse -> Record.from_biopython and through
     record_to_json -> json.dumps -> json.loads -> record_from_json; the order in which the collections are
     written, the reloaded lists (numbering, cross references, recomputed locations) and the two
     "same record / same second file" verdicts are compared with the model (fn 5); the guard of the theorem
     C10_relink is evaluated by the model (fn 6) and the property itself is evaluated on every case;
 (c) whole records (genes with gene functions, codon_start, PFAM / aSDomain / motif features, sideloaded
     areas, linear and circular, origin-spanning genes and areas): canonical dumps of the original and the
     reloaded record and the text fixed point, on the real code only (Biopython / orjson are not modelled).
"""
import io
import json as pyjson
import re

import common
from common import err_code

PROP = 10
KNOWN_CLASS = "equal_key_areas"
KNOWN_CLASS2 = "whole_record_vs_origin_spanning_order"
KNOWN_CLASS3 = "equal_key_genes_order"

KIND_CODE = {"single": 0, "interleaved": 1, "neighbouring": 2, "chemical_hybrid": 3}


# ---------------------------------------------------------------- encoding helpers

def enc_str(text):
    return [len(text)] + [ord(c) for c in text]


def strand_code(strand):
    return 2 if strand is None else int(strand)


def enc_loc(location):
    parts = location.parts
    out = [len(parts)]
    for part in parts:
        out += [int(part.start), int(part.end), strand_code(part.strand)]
    return out


def pos_kind(pos):
    from Bio.SeqFeature import BeforePosition, AfterPosition, ExactPosition
    if isinstance(pos, BeforePosition):
        return 1
    if isinstance(pos, AfterPosition):
        return 2
    if isinstance(pos, ExactPosition):
        return 0
    raise TypeError(type(pos))


def enc_tpart(part):
    return [pos_kind(part.start), int(part.start), pos_kind(part.end), int(part.end), strand_code(part.strand)]


def enc_tloc(location):
    from Bio.SeqFeature import CompoundLocation as BioCompound
    if isinstance(location, BioCompound):
        out = [1] + enc_str(location.operator) + [len(location.parts)]
        for part in location.parts:
            out += enc_tpart(part)
        return out
    return [0] + enc_tpart(location)


def make_tloc(spec):
    """ spec: ("s", part) | ("c", operator, [parts]); part = (kind, value, kind, value, strand) """
    from Bio.SeqFeature import BeforePosition, AfterPosition, ExactPosition
    from antismash.common.secmet.locations import FeatureLocation, CompoundLocation
    mk = {0: ExactPosition, 1: BeforePosition, 2: AfterPosition}

    def part(p):
        return FeatureLocation(mk[p[0]](p[1]), mk[p[2]](p[3]), None if p[4] == 2 else p[4])
    if spec[0] == "s":
        return part(spec[1])
    return CompoundLocation([part(p) for p in spec[2]], operator=spec[1])


def enc_tspec(spec):
    if spec[0] == "s":
        return [0] + list(spec[1])
    out = [1] + enc_str(spec[1]) + [len(spec[2])]
    for p in spec[2]:
        out += list(p)
    return out


# ---------------------------------------------------------------- (a) codec stream

def gen_tpart(rng):
    hi = rng.choice([9, 10, 99, 100, 1000, 10 ** 5, 10 ** 7, 10 ** 12])
    a = rng.randint(0, hi)
    b = a + rng.choice([0, 0, 1, 2, 9, rng.randint(0, hi)])
    return (rng.choice([0, 0, 0, 1, 2]), a, rng.choice([0, 0, 0, 1, 2]), b, rng.choice([1, 1, -1, -1, 0, 2]))


def gen_tspec(rng):
    if rng.random() < 0.5:
        return ("s", gen_tpart(rng))
    return ("c", rng.choice(["join", "join", "order"]), [gen_tpart(rng) for _ in range(rng.choice([2, 2, 3, 5]))])


MUT_ALPHABET = "[]:(){},<>+-?0123456789join"
RISKY = re.compile(r"[\s_][0-9+\-<>]|[0-9][\s_]")


def mutate(rng, text):
    for _ in range(rng.choice([1, 1, 2, 3])):
        if not text:
            break
        i = rng.randrange(len(text))
        r = rng.random()
        if r < 0.4:
            text = text[:i] + text[i + 1:]
        elif r < 0.7:
            text = text[:i] + rng.choice(MUT_ALPHABET) + text[i:]
        else:
            text = text[:i] + rng.choice(MUT_ALPHABET) + text[i + 1:]
    return text


def impl_codec(fn, arg):
    from antismash.common.secmet.locations import location_from_string
    try:
        if fn == 1:
            return enc_str(str(make_tloc(arg)))
        if fn == 2:
            return [0] + enc_tloc(location_from_string(arg))
        if fn == 3:
            return enc_str(str(arg))
        if fn == 4:
            return [0, int(arg)]
    except Exception as exc:  # pylint: disable=broad-except
        return [1, err_code(exc)]
    raise ValueError(fn)


def codec_cases(chk, total):
    rng = chk.rng
    cases, outs = [], []
    bad_roundtrips = []
    for i in range(total):
        r = rng.random()
        spec = None
        if r < 0.25:
            spec = gen_tspec(rng)
            fn, arg, flat = 1, spec, [PROP, 1] + enc_tspec(spec)
            nontrivial = spec[0] == "c" or spec[1][0] or spec[1][2]
        elif r < 0.75:
            spec = gen_tspec(rng)
            text = str(make_tloc(spec))
            if rng.random() < 0.5:
                text = mutate(rng, text)
                spec = None
                chk.count("codec_mutated_text")
            if RISKY.search(text) or "_" in text or re.search(r"[0-9]{18}", text):
                chk.count("codec_skipped_int_syntax_not_modelled")
                continue
            fn, arg, flat = 2, text, [PROP, 2] + enc_str(text)
            nontrivial = True
        elif r < 0.85:
            n = rng.choice([0, 1, 9, 10, 99, 100, 12345, rng.randint(0, 10 ** 9), -rng.randint(0, 10 ** 6),
                            rng.randint(0, 10 ** 17)])
            fn, arg, flat = 3, n, [PROP, 3, n]
            nontrivial = n > 9
        else:
            text = str(rng.choice([0, 7, 10, 105, rng.randint(0, 10 ** 9), rng.randint(0, 10 ** 15)]))
            text = rng.choice(["", "", "", "-", "+", "00"]) + text
            if rng.random() < 0.3:
                text = mutate(rng, text).replace("_", "")
            if re.search(r"[0-9]{18}", text):
                chk.count("codec_skipped_int_syntax_not_modelled")
                continue
            fn, arg, flat = 4, text, [PROP, 4] + enc_str(text)
            nontrivial = len(text) > 1
        out = impl_codec(fn, arg)
        if fn == 2 and spec is not None and out != [0] + enc_tspec(spec) and len(bad_roundtrips) < 3:
            # the property itself: location_from_string(str(location)) is the location
            bad_roundtrips.append(1)
            chk.violation("counterexample", "location_from_string(str(location)) differs from the location",
                          {"theorem_or_correspondence": "C10_loc_codec / location_from_string", "function": 2, "flat": flat,
                           "input": {"location": repr(spec), "text": text}, "implementation": out,
                           "expected": [0] + enc_tspec(spec)})
        cases.append(flat)
        outs.append(out)
        chk.count({1: "codec_str(location)", 2: "codec_location_from_string", 3: "codec_str(int)", 4: "codec_int(str)"}[fn])
        if fn in (2, 4) and out[0] == 1:
            chk.count("codec_error_" + common.ERR_NAME.get(out[1], str(out[1])))
        chk.note_case(flat, nontrivial, {"function": fn, "argument": repr(arg)[:200], "implementation": out[:40]})
    return cases, outs


# ---------------------------------------------------------------- (b) skeleton stream

def area_loc(n, s, e):
    """ [s, e) on a ring of n, e may exceed n (wraps) """
    from antismash.common.secmet.locations import FeatureLocation, CompoundLocation
    if e <= n:
        return FeatureLocation(s, e, 1)
    return CompoundLocation([FeatureLocation(s, n, 1), FeatureLocation(0, e - n, 1)])


def gen_skeleton(rng):
    """ returns (n, circular, protocluster specs, subregion specs, mode) """
    n = rng.choice([300, 1000, 1000, 5000])
    circular = rng.random() < 0.45
    many = rng.random() < 0.12
    k = rng.choice([10, 11, 12, 14]) if many else rng.choice([1, 2, 2, 3, 3, 4, 5, 6])
    protos = []
    pos = rng.randint(0, n // 5)
    for _ in range(k):
        r = rng.random()
        if protos and r < 0.025:
            protos.append(rng.choice(protos))                       # identical extent (the tie class)
            continue
        if protos and r < 0.25:
            ns, cs, ce, ne = rng.choice(protos)                      # same start, other length / nested
            ne2 = max(ce, ne - rng.choice([1, 1, 2, 5]))
            if ne2 == ne:
                ne2 = ne + 3
            protos.append((ns, cs, ce, ne2))
            continue
        nb = rng.choice([0, 0, 5, 20, 50])
        cl = rng.choice([1, 5, 20, 60, n // 6])
        cs = pos + nb
        ce = cs + cl
        ne = ce + nb
        protos.append((pos, cs, ce, ne))
        step = rng.choice([-30, -5, 0, 1, 10, 40, n // 4]) if not many else rng.choice([-5, 1, 10])
        pos = max(0, ne + step) if rng.random() < 0.7 else max(0, pos + rng.choice([0, 1, 7]))
    out = []
    for ns, cs, ce, ne in protos:
        if circular:
            if ne - ns >= n:
                continue
            shift = rng.choice([0, 0, 0, n // 2, n - 40, n - 10])
            if shift:
                ns, cs, ce, ne = ns + shift, cs + shift, ce + shift, ne + shift
            # normalise so that the start is inside the record
            while ns >= n:
                ns, cs, ce, ne = ns - n, cs - n, ce - n, ne - n
        else:
            if ne > n:
                continue
        out.append((ns, cs, ce, ne))
    subs = []
    for _ in range(rng.choice([0, 0, 0, 1, 1, 2])):
        s = rng.randint(0, n - 2)
        e = min(n, s + rng.choice([1, 10, 50, 200]))
        if out and rng.random() < 0.3:
            ns, _cs, _ce, ne = rng.choice(out)
            if ne <= n:
                s, e = ns, ne
        subs.append((s, e))
    mode = "manual" if rng.random() < 0.25 else "create"
    return n, circular, out, subs, mode


def build_skeleton_record(rng, n, circular, protos, subs, mode):
    from antismash.common.secmet import Record
    from antismash.common.secmet.features import Protocluster, SubRegion, CandidateCluster
    from antismash.common.secmet.locations import FeatureLocation
    record = Record("A" * n)
    record.id = record.name = "rec1"
    record.add_annotation("topology", "circular" if circular else "linear")
    record.add_annotation("molecule_type", "DNA")
    for tag, (ns, cs, ce, ne) in enumerate(protos):
        # the core must lie in the record coordinates too: build both with the same wrap rule
        if cs >= n:
            core = FeatureLocation(cs - n, ce - n, 1)
        else:
            core = area_loc(n, cs, ce)
        record.add_protocluster(Protocluster(core, area_loc(n, ns, ne), tool="rule-based-clusters", product=f"p{tag}",
                                             cutoff=20, neighbourhood_range=cs - ns, detection_rule="a and b",
                                             product_category="PKS"))
    for tag, (s, e) in enumerate(subs):
        record.add_subregion(SubRegion(FeatureLocation(s, e, 1), tool="subtool", label=f"s{tag}"))
    if mode == "create":
        record.create_candidate_clusters()
    else:
        stored = record.get_protoclusters()
        kinds = list(CandidateCluster.kinds)
        for _ in range(rng.choice([1, 2, 3])):
            size = rng.choice([1, 1, 2, 3, min(5, len(stored))])
            members = rng.sample(list(stored), min(size, len(stored)))
            if rng.random() < 0.7:
                members.sort(key=lambda p: stored.index(p))
            if not circular:
                # what the pipeline can produce on a linear record: members chained by overlap (see notes: a linear
                # candidate with members more than half the record apart reloads with an origin-spanning location)
                chain = sorted(members, key=lambda p: p.location.start)
                reach = chain[0].location.end
                connected = True
                for p in chain[1:]:
                    if p.location.start > reach:
                        connected = False
                    reach = max(reach, p.location.end)
                if not connected:
                    continue
            record.add_candidate_cluster(CandidateCluster(rng.choice(kinds), members,
                                                          circular_wrap_point=n if circular else None))
    record.create_regions()
    return record


def tag_of(area):
    from antismash.common.secmet.features import Protocluster
    return int((area.product if isinstance(area, Protocluster) else area.label)[1:])


def index_by_identity(items, item):
    for i, other in enumerate(items):
        if other is item:
            return i
    raise ValueError("object not stored in its record")


def enc_record_skeleton(record):
    """ the record's collections in stored order; cross references by POSITION of the referenced object """
    protos = record.get_protoclusters()
    subs = record.get_subregions()
    cands = record.get_candidate_clusters()
    out = [len(protos)]
    for p in protos:
        out += [tag_of(p)] + enc_loc(p.location) + enc_loc(p.core_location)
    out.append(len(subs))
    for s in subs:
        out += [tag_of(s)] + enc_loc(s.location)
    out.append(len(cands))
    for c in cands:
        nums = [index_by_identity(protos, p) + 1 for p in c.protoclusters]
        out += [KIND_CODE[str(c.kind)], len(nums)] + nums + enc_loc(c.location)
    regions = record.get_regions()
    out.append(len(regions))
    for r in regions:
        cn = [index_by_identity(cands, c) + 1 for c in r.candidate_clusters]
        sn = [index_by_identity(subs, s) + 1 for s in r.subregions]
        out += [len(cn)] + cn + [len(sn)] + sn + enc_loc(r.location)
    return out


def file_projection(bio_features):
    """ what the written features say about the collections, per kind in file order """
    protos, subs, cands, regions = [], [], [], []
    for f in bio_features:
        q = f.qualifiers
        if f.type == "protocluster":
            protos.append((q["product"][0], str(f.location), q["core_location"][0], q.get("protocluster_number")))
        elif f.type == "subregion":
            subs.append((q.get("label", [""])[0], str(f.location), q.get("subregion_number")))
        elif f.type == "cand_cluster":
            cands.append((q["kind"][0], tuple(q["protoclusters"]), str(f.location), q.get("candidate_cluster_number")))
        elif f.type == "region":
            regions.append((tuple(q.get("candidate_cluster_numbers", [])), tuple(q.get("subregion_numbers", [])),
                            str(f.location), q.get("region_number")))
    return protos, subs, cands, regions


def enc_order(bio_features):
    protos, subs, cands, regions = file_projection(bio_features)
    po = [int(p[0][1:]) for p in protos]
    so = [int(s[0][1:]) for s in subs]
    co = [int(c[3][0]) - 1 for c in cands]
    ro = [int(r[3][0]) - 1 for r in regions]
    out = []
    for lst in (po, so, co, ro):
        out += [len(lst)] + lst
    return out


def features_text(text):
    """ the feature table and the sequence of a GenBank text (the header is Biopython's business: a record
        built from scratch prints `SOURCE .` the first time and `SOURCE` after a reload) """
    return text[text.index("FEATURES"):]


def roundtrip_genbank(record):
    from Bio import SeqIO
    from antismash.common.secmet import Record
    bio = record.to_biopython()
    buf = io.StringIO()
    SeqIO.write([bio], buf, "genbank")
    text1 = buf.getvalue()
    parsed = list(SeqIO.parse(io.StringIO(text1), "genbank"))[0]
    reloaded = Record.from_biopython(parsed, "bacteria")
    return bio, text1, reloaded


def write_genbank(record):
    from Bio import SeqIO
    buf = io.StringIO()
    bio = record.to_biopython()
    SeqIO.write([bio], buf, "genbank")
    return bio, buf.getvalue()


def roundtrip_json(record):
    from antismash.common import serialiser, json
    bio = record.to_biopython()
    text1 = json.dumps(serialiser.record_to_json(bio))
    reloaded = serialiser.record_from_json(json.loads(text1), "bacteria")
    return bio, text1, reloaded


def write_json(record):
    from antismash.common import serialiser, json
    bio = record.to_biopython()
    return bio, json.dumps(serialiser.record_to_json(bio))


def impl_skeleton(record, path):
    """ -> (encoded output, info) ; output = file order ++ result ++ [same skeleton, same second file] """
    original = enc_record_skeleton(record)
    rt, wr = (roundtrip_genbank, write_genbank) if path == "genbank" else (roundtrip_json, write_json)
    info = {}
    try:
        bio = record.to_biopython()
        order = enc_order(bio.features)
    except Exception as exc:  # pylint: disable=broad-except
        info["error"] = f"writing raised {type(exc).__name__}: {exc}"[:200]
        return [-1, err_code(exc)], info
    try:
        bio1, text1, reloaded = rt(record)
    except Exception as exc:  # pylint: disable=broad-except
        info["error"] = f"{type(exc).__name__}: {exc}"[:200]
        return order + [1, err_code(exc)], info
    new = enc_record_skeleton(reloaded)
    bio2, text2 = wr(reloaded)
    same_file = file_projection(bio1.features) == file_projection(bio2.features)
    if path == "genbank":
        info["text_fixed_point"] = features_text(text1) == features_text(text2)
    else:
        info["text_fixed_point"] = text1 == text2
    info["same"] = new == original
    return order + [0] + new + [int(new == original), int(same_file)], info


def describe_skeleton(flat):
    return {"function": flat[1], "record_length": flat[2], "payload": flat[3:]}


# ---------------------------------------------------------------- (c) whole records

def canon(record):
    out = []
    for f in record.to_biopython().features:
        quals = {k: (list(v) if isinstance(v, (list, tuple)) else v) for k, v in sorted(f.qualifiers.items())}
        out.append((f.type, str(f.location), quals))
    return out


def safe_outline(record):
    try:
        return [(f[0], f[1]) for f in canon(record)]
    except Exception as exc:  # pylint: disable=broad-except
        return f"<cannot be written: {type(exc).__name__}: {exc}>"[:300]


def reproduces(witness):
    try:
        return witness()
    except Exception:  # pylint: disable=broad-except
        return False      # the recorded behaviour is gone; whatever replaced it is judged by the streams above


def gen_whole_record(rng, counts):
    from Bio.SeqFeature import SeqFeature
    from antismash.common.secmet import Record
    from antismash.common.secmet.features import (Protocluster, CDSFeature, SubRegion, PFAMDomain, CDSMotif,
                                                  AntismashDomain, Gene)
    from antismash.common.secmet.features.protocluster import SideloadedProtocluster
    from antismash.common.secmet.features.subregion import SideloadedSubRegion
    from antismash.common.secmet.qualifiers.gene_functions import GeneFunction
    from antismash.common.secmet.locations import FeatureLocation as FL, CompoundLocation as CL
    n = rng.choice([600, 900, 1500])
    circular = rng.random() < 0.5
    seq = "".join(rng.choice("ACGT") for _ in range(n))
    record = Record(seq)
    record.id = record.name = "rec1"
    record.add_annotation("topology", "circular" if circular else "linear")
    record.add_annotation("molecule_type", "DNA")
    genes = []
    for i in range(rng.randint(2, 7)):
        length = 3 * rng.randint(5, 30)
        start = rng.randrange(0, n - length)
        strand = rng.choice([1, -1])
        loc = FL(start, start + length, strand)
        if circular and rng.random() < 0.15:
            a = 3 * rng.randint(2, 8)
            b = 3 * rng.randint(2, 8)
            parts = [FL(n - a, n, strand), FL(0, b, strand)]
            if strand == -1:
                parts.reverse()
            loc = CL(parts)
            length = a + b
        elif rng.random() < 0.12 and length >= 30:
            third = 3 * (length // 9)
            parts = [FL(start, start + third, strand), FL(start + third + 6, start + length, strand)]
            if strand == -1:
                parts.reverse()
            loc = CL(parts)
            length -= 6
        try:
            if rng.random() < 0.25:
                # a gene read from an input file with /codon_start
                codon_start = rng.choice([1, 2, 3])
                quals = {"locus_tag": [f"g{i}"], "translation": ["M" + "A" * (length // 3 - 2)],
                         "codon_start": [str(codon_start)]}
                if rng.random() < 0.5:
                    quals["note"] = ["from input", "another note"]
                record.add_biopython_feature(SeqFeature(loc, type="CDS", qualifiers=quals))
                cds = record.get_cds_by_name(f"g{i}")
                counts["gene_codon_start_%d" % codon_start] += 1
            else:
                cds = CDSFeature(loc, translation="M" + "A" * (length // 3 - 2), locus_tag=f"g{i}",
                                 protein_id=(f"p{i}" if rng.random() < 0.5 else None),
                                 product=rng.choice(["", "some product", "a rather long product name " * 4]))
                record.add_cds_feature(cds)
            if rng.random() < 0.5:
                cds.gene_functions.add(GeneFunction.CORE, "rule-based-clusters", "dom1", "prodA")
            if rng.random() < 0.3:
                cds.gene_functions.add(GeneFunction.ADDITIONAL, "smcogs", "SMCOG1001: thing")
            if rng.random() < 0.3:
                cds.notes.append("a note")
            if rng.random() < 0.3:
                record.add_gene(Gene(loc, locus_tag=f"g{i}"))
            genes.append(cds)
            if len(loc.parts) > 1:
                counts["gene_compound"] += 1
        except Exception as exc:  # pylint: disable=broad-except
            counts["gen_cds_" + type(exc).__name__] += 1
    for g in genes:
        plen = len(g.location) // 3
        if plen < 5:
            continue
        try:
            if rng.random() < 0.5:
                ps_ = rng.randint(0, plen - 2)
                pe_ = rng.randint(ps_ + 1, plen)
                loc = g.get_sub_location_from_protein_coordinates(ps_, pe_)
                dom = PFAMDomain(loc, "desc", FL(ps_, pe_), "PF00001", "test_tool", g.get_name(), domain="dom")
                dom.version = 1
                dom.domain_id = f"pf_{g.get_name()}_{ps_}_{pe_}"
                record.add_pfam_domain(dom)
                counts["pfam_domain"] += 1
            if rng.random() < 0.3:
                ps_ = rng.randint(0, plen - 2)
                pe_ = rng.randint(ps_ + 1, plen)
                loc = g.get_sub_location_from_protein_coordinates(ps_, pe_)
                dom = AntismashDomain(loc, "test_tool", FL(ps_, pe_), g.get_name())
                dom.domain_id = f"as_{g.get_name()}_{ps_}_{pe_}"
                dom.domain = "PKS_KS"
                record.add_antismash_domain(dom)
                counts["as_domain"] += 1
            if rng.random() < 0.3:
                ps_ = rng.randint(0, plen - 2)
                pe_ = rng.randint(ps_ + 1, plen)
                loc = g.get_sub_location_from_protein_coordinates(ps_, pe_)
                motif = CDSMotif(loc, g.get_name(), FL(ps_, pe_), tool="test_tool")
                motif.domain_id = f"mo_{g.get_name()}_{ps_}_{pe_}"
                record.add_cds_motif(motif)
                counts["cds_motif"] += 1
        except Exception as exc:  # pylint: disable=broad-except
            counts["gen_domain_" + type(exc).__name__] += 1
    for _ in range(rng.randint(1, 4)):
        cs = rng.randrange(0, n)
        cl = rng.randint(10, n // 4)
        nb = rng.choice([0, 10, 50])
        ns, ce, ne = cs - nb, cs + cl, cs + cl + nb
        if not circular:
            if ns < 0 or ne > n:
                continue
            core, loc = FL(cs, ce, 1), FL(ns, ne, 1)
        else:
            def wrap(a, b):
                a %= n
                b = (b - 1) % n + 1
                return FL(a, b, 1) if a < b else CL([FL(a, n, 1), FL(0, b, 1)])
            core, loc = wrap(cs, ce), wrap(ns, ne)
            if len(core.parts) > 1 and len(loc.parts) == 1:
                continue
        try:
            if rng.random() < 0.2:
                proto = SideloadedProtocluster(core, loc, "exttool", rng.choice(["prodA", "prodX"]),
                                               neighbourhood_range=nb,
                                               extra_qualifiers=rng.choice([{}, {"extra": ["v1", "v2"], "other": ["x"]}]))
                counts["sideloaded_protocluster"] += 1
            else:
                proto = Protocluster(core, loc, tool="rule-based-clusters", product=rng.choice(["prodA", "prodB", "prodC"]),
                                     cutoff=20, neighbourhood_range=nb, detection_rule="a and b", product_category="PKS")
            record.add_protocluster(proto)
            if len(loc.parts) > 1:
                counts["area_origin_spanning"] += 1
        except Exception as exc:  # pylint: disable=broad-except
            counts["gen_proto_" + type(exc).__name__] += 1
    if rng.random() < 0.5:
        s = rng.randrange(0, n - 50)
        try:
            if rng.random() < 0.3:
                record.add_subregion(SideloadedSubRegion(FL(s, s + rng.randint(10, 50), 1), tool="exttool", label="",
                                                         extra_qualifiers=rng.choice([{}, {"extra": ["v"]}])))
                counts["sideloaded_subregion"] += 1
            else:
                record.add_subregion(SubRegion(FL(s, s + rng.randint(10, 50), 1), tool="sub", label=rng.choice(["", "lbl"])))
        except Exception as exc:  # pylint: disable=broad-except
            counts["gen_sub_" + type(exc).__name__] += 1
    return record


def has_equal_key_areas(record):
    for items in (record.get_protoclusters(), record.get_subregions(), record.get_candidate_clusters()):
        seen = set()
        for item in items:
            key = str(item.location)
            if key in seen:
                return True
            seen.add(key)
    return False


def has_mutually_less_areas(record):
    for items in (record.get_protoclusters(), record.get_subregions(), record.get_candidate_clusters()):
        for i, a in enumerate(items):
            for b in items[i + 1:]:
                if a < b and b < a:
                    return True
    return False


def witness2_reproduces():
    """ circular record: a neighbouring candidate covering the whole record as [0:N] and the origin-spanning single
        candidate of one of its members swap numbers on every reload """
    from antismash.common.secmet import Record
    from antismash.common.secmet.features import Protocluster
    from antismash.common.secmet.locations import FeatureLocation as FL, CompoundLocation as CL
    record = Record("A" * 300)
    record.id = record.name = "rec"
    record.add_annotation("topology", "circular")
    for product, core, loc in (("a", FL(10, 50, 1), CL([FL(249, 300, 1), FL(0, 109, 1)])),
                               ("b", FL(150, 200, 1), FL(89, 260, 1))):
        record.add_protocluster(Protocluster(core, loc, tool="t", product=product, cutoff=1, neighbourhood_range=0,
                                             detection_rule="r"))
    record.create_candidate_clusters()
    record.create_regions()
    before = [str(c.location) for c in record.get_candidate_clusters()]
    _bio, _text, reloaded = roundtrip_json(record)
    return before != [str(c.location) for c in reloaded.get_candidate_clusters()]


def has_equal_key_genes(record):
    genes = record.get_cds_features()
    for i, a in enumerate(genes):
        for b in genes[i + 1:]:
            if not a < b and not b < a:
                return True
    return False


def witness3_reproduces():
    """ two genes with the same start and length (opposite strands) are written in the other order after a reload """
    from antismash.common.secmet import Record
    from antismash.common.secmet.features import CDSFeature
    from antismash.common.secmet.locations import FeatureLocation as FL
    record = Record("ACGT" * 30)
    record.id = record.name = "rec"
    record.add_annotation("topology", "linear")
    record.add_cds_feature(CDSFeature(FL(10, 40, 1), translation="M" * 10, locus_tag="a"))
    record.add_cds_feature(CDSFeature(FL(10, 40, -1), translation="M" * 10, locus_tag="b"))
    before = [c.get_name() for c in record.get_cds_features()]
    _bio, _text, reloaded = roundtrip_json(record)
    return before != [c.get_name() for c in reloaded.get_cds_features()]


def whole_record_stream(chk, total, known_listed, known2_listed, known3_listed=False):
    import collections
    from Bio import SeqIO
    from antismash.common.secmet import Record
    from antismash.common import serialiser, json
    rng = chk.rng
    counts = collections.Counter()
    setup_failures = []
    for _ in range(total):
        built = gen_whole_record(rng, counts)
        try:
            built.create_candidate_clusters()
            built.create_regions()
        except Exception as exc:  # pylint: disable=broad-except
            counts["setup_" + type(exc).__name__] += 1   # formation / region defects belong to C05 / C06
            setup_failures.append(f"{type(exc).__name__}: {exc}"[:200])
            continue
        kind = "circular" if built.is_circular() else "linear"
        try:
            # the record under test is obtained by parsing once: header annotations in Biopython's normal form
            _bio, text0 = write_genbank(built)
            record = Record.from_biopython(list(SeqIO.parse(io.StringIO(text0), "genbank"))[0], "bacteria")
        except Exception as exc:  # pylint: disable=broad-except
            counts["first_parse_" + type(exc).__name__] += 1
            if has_equal_key_areas(built):
                counts["first_parse_failed_in_tie_class"] += 1
                continue
            chk.violation("counterexample", "a generated record cannot be reloaded from its own GenBank text",
                          {"theorem_or_correspondence": "whole-record GenBank round trip", "error": repr(exc)[:300],
                           "input": safe_outline(built)})
            continue
        counts[kind + "_records"] += 1
        chk.evaluations += 1
        ties = has_equal_key_areas(record)
        if ties:
            counts["records_with_equal_key_areas"] += 1
        try:
            d0 = canon(record)
        except Exception as exc:  # pylint: disable=broad-except
            chk.violation("counterexample", f"a reloaded record cannot be written: {type(exc).__name__}: {exc}"[:300],
                          {"theorem_or_correspondence": "whole-record GenBank round trip",
                           "first_text": text0[:3000]})
            continue
        for path in ("genbank", "json"):
            try:
                if path == "genbank":
                    _b, text1, reloaded = roundtrip_genbank(record)
                    _b2, text2 = write_genbank(reloaded)
                else:
                    _b, text1, reloaded = roundtrip_json(record)
                    _b2, text2 = write_json(reloaded)
                d1 = canon(reloaded)
                problem = None
                order_only = d0 != d1 and sorted(map(repr, d0)) == sorted(map(repr, d1))
                if d0 != d1:
                    diffs = [(a[0], a[1], b[0], b[1], [k for k in set(a[2]) | set(b[2]) if a[2].get(k) != b[2].get(k)])
                             for a, b in zip(d0, d1) if a != b]
                    problem = ("reloaded record differs", diffs[:4], len(d0), len(d1))
                elif text1 != text2:
                    problem = ("second output differs from the first (not a fixed point)", None, 0, 0)
                if reloaded.is_circular() != record.is_circular() or str(reloaded.seq) != str(record.seq):
                    problem = ("sequence or topology changed", None, 0, 0)
            except Exception as exc:  # pylint: disable=broad-except
                problem = (f"reload raised {type(exc).__name__}: {exc}"[:200], None, 0, 0)
                order_only = False
            if problem is None:
                counts[path + "_ok"] += 1
                continue
            if ties and known_listed:
                counts[path + "_differs_in_known_class_equal_key_areas"] += 1
                continue
            if known3_listed and has_equal_key_genes(record) and (order_only or problem[0].startswith("second output")):
                counts[path + "_feature_order_differs_in_known_class_" + KNOWN_CLASS3] += 1
                continue
            if known2_listed and has_mutually_less_areas(record):
                counts[path + "_differs_in_known_class_" + KNOWN_CLASS2] += 1
                continue
            chk.violation("counterexample", f"whole-record {path} round trip: {problem[0]}",
                          {"theorem_or_correspondence": f"whole-record {path} round trip", "details": repr(problem[1])[:1500],
                           "input": [(f[0], f[1]) for f in d0], "circular": record.is_circular(),
                           "record_length": len(record.seq)})
    if len(setup_failures) > max(5, total // 10):
        chk.violation("broken-correspondence", f"{len(setup_failures)} of {total} generated whole records could not be set up",
                      {"theorem_or_correspondence": "whole-record generator", "first_errors": setup_failures[:5]})
    for key, val in sorted(counts.items()):
        chk.count("whole_" + key, val)


# ---------------------------------------------------------------- known finding

def known_entry(cls):
    for entry in common.load_known_findings("C10"):
        if entry.get("class") == cls and entry.get("status") == "known":
            return entry
    return None


def witness_reproduces():
    """ two protoclusters with identical extent swap numbers on reload """
    from antismash.common.secmet import Record
    from antismash.common.secmet.features import Protocluster
    from antismash.common.secmet.locations import FeatureLocation as FL
    record = Record("ACGT" * 100)
    record.id = record.name = "rec"
    record.add_annotation("topology", "linear")
    for product in ("a", "b"):
        record.add_protocluster(Protocluster(FL(20, 30, 1), FL(10, 40, 1), tool="t", product=product, cutoff=1,
                                             neighbourhood_range=10, detection_rule="r"))
    record.create_candidate_clusters()
    record.create_regions()
    before = [p.product for p in record.get_protoclusters()]
    _bio, _text, reloaded = roundtrip_json(record)
    after = [p.product for p in reloaded.get_protoclusters()]
    return before != after


# ---------------------------------------------------------------- run

RULE = ("(a) codec: text locations with all three position kinds, four strand spellings, join/order with 2-5 parts, values up to "
        "10^12, start == end; location_from_string on printed locations and on 1-3 character mutations of them (texts in "
        "which Python's int() would accept whitespace/underscore syntax that the model does not transcribe are skipped and "
        "counted); str(int)/int(str) incl. signs, leading zeros, values up to 10^17 (the OCaml driver carries 62-bit integers).  (b) skeleton: records of 300-5000 bases, "
        "linear and circular, 1-14 protoclusters (nested, equal starts, identical extents = the tie class, origin-spanning on "
        "circular records), 0-2 subregions, candidates from create_candidate_clusters or hand-built member subsets, regions "
        "from create_regions; every record through the JSON path, one in three also through the GenBank path; non-trivial = "
        "at least two collections of one kind; distinct by flat encoding.  (c) whole records with genes (gene functions, "
        "notes, codon_start 1-3, multi-exon and origin-spanning genes), PFAM/aSDomain/motif features, ordinary and sideloaded "
        "protoclusters and subregions, candidates and regions: canonical dump and text fixed point through both paths "
        "(real code only).")


def run(chk):
    import collections
    if not chk.build_and_audit():
        return chk.finish(RULE)
    quick = chk.tier == "quick"
    rng = chk.rng
    entry = known_entry(KNOWN_CLASS)
    entry2 = known_entry(KNOWN_CLASS2)
    entry3 = known_entry(KNOWN_CLASS3)
    known_listed = entry is not None

    # (a) codec
    cases, outs = codec_cases(chk, 20000 if quick else 300000)
    model = common.correspondence(chk, cases, outs, describe=lambda flat: {"function": flat[1], "payload": flat[2:]},
                                  label="location / integer text codec")
    chk.crosscheck_vm(cases, model, k=100 if quick else 600)

    # (b) skeletons
    total = 6000 if quick else 60000
    sk_cases, sk_outs, sk_infos, guards = [], [], [], []
    build_failures = []
    counts = collections.Counter()
    for i in range(total):
        n, circular, protos, subs, mode = gen_skeleton(rng)
        if not protos and not subs:
            continue
        try:
            record = build_skeleton_record(rng, n, circular, protos, subs, mode)
        except Exception as exc:  # pylint: disable=broad-except
            counts["skeleton_build_failed_" + type(exc).__name__] += 1    # C05 / C06 territory
            build_failures.append(f"{type(exc).__name__}: {exc}"[:200])
            continue
        if record.get_feature_count() >= 64:
            counts["skeleton_skipped_64_or_more_features"] += 1      # beyond binary insertion: Timsort merges, not modelled
            continue
        payload = [n] + enc_record_skeleton(record)
        paths = ["json"] + (["genbank"] if i % 3 == 0 else [])
        for path in paths:
            out, info = impl_skeleton(record, path)
            info["path"] = path
            flat = [PROP, 5] + payload
            sk_cases.append(flat)
            sk_outs.append(out)
            sk_infos.append(info)
            guards.append([PROP, 6] + payload)
            counts["skeleton_" + path] += 1
            counts["skeleton_" + ("circular" if circular else "linear")] += 1
            counts["skeleton_mode_" + mode] += 1
            np_ = len(record.get_protoclusters())
            counts["skeleton_protoclusters_%s" % ("10+" if np_ >= 10 else np_)] += 1
            if any(len(p.location.parts) > 1 for p in record.get_protoclusters()):
                counts["skeleton_origin_spanning"] += 1
            if "error" in info:
                counts["skeleton_reload_error"] += 1
            chk.note_case(flat + [path == "json"], np_ >= 2 or len(record.get_candidate_clusters()) >= 2,
                          {"function": 5, "path": path, "record_length": n, "circular": circular,
                           "protoclusters": [str(p.location) for p in record.get_protoclusters()],
                           "candidates": [(str(c.kind), str(c.location)) for c in record.get_candidate_clusters()],
                           "same_after_reload": info.get("same")})
    if len(build_failures) > max(5, total // 50):
        # formation / region defects of generated layouts (C05, C06) are rare on the unchanged tree; more means that
        # records can no longer be built at all
        chk.violation("broken-correspondence", f"{len(build_failures)} of {total} generated records could not be built",
                      {"theorem_or_correspondence": "skeleton generator", "first_errors": build_failures[:5]})
    sk_model = common.correspondence(chk, sk_cases, sk_outs, spec_fn_offset=100, describe=describe_skeleton,
                                     label="collection skeleton through to_biopython / from_biopython")
    guard_outs = common.run_driver(guards)
    chk.crosscheck_vm(sk_cases, sk_model, k=60 if quick else 300)
    # the property itself on every case
    reported = 0
    for flat, out, info, g in zip(sk_cases, sk_outs, sk_infos, guard_outs):
        guard, no_ties = (g + [0, 0])[0], (g + [0, 0])[1]
        counts["guard_holds" if guard == 1 else "guard_fails"] += 1
        ok = info.get("same") and info.get("text_fixed_point")
        if ok:
            counts["property_holds"] += 1
            continue
        if guard == 1:
            counts["property_fails_under_guard"] += 1
        if no_ties == 0 and known_listed:
            counts["property_fails_in_known_class_equal_key_areas"] += 1
            continue
        if (g + [1] * 5)[4] == 0 and entry2 is not None:
            counts["property_fails_in_known_class_" + KNOWN_CLASS2] += 1
            continue
        counts["property_fails_unattributed"] += 1
        if reported < 3:
            reported += 1
            chk.violation("counterexample", f"{info['path']} round trip changes the record: "
                          + (info.get("error") or ("collections differ" if not info.get("same") else "second text differs")),
                          {"theorem_or_correspondence": "C10_relink / skeleton round trip", "function": 5, "flat": flat,
                           "implementation": out, "input": describe_skeleton(flat), "guard": guard, "no_ties": no_ties})
    for key, val in sorted(counts.items()):
        chk.count(key, val)

    # (c) whole records
    whole_record_stream(chk, 250 if quick else 4000, known_listed, entry2 is not None, entry3 is not None)

    if known_listed and reproduces(witness_reproduces):
        chk.known(entry["what_fails"])
    if entry2 is not None and reproduces(witness2_reproduces):
        chk.known(entry2["what_fails"])
    if entry3 is not None and reproduces(witness3_reproduces):
        chk.known(entry3["what_fails"])
    chk.extra["not_modelled"] = ("Biopython GenBank writer/reader (line wrapping, header), orjson, qualifier codecs of gene-level "
                                 "features: covered by the whole-record stream only")
    return chk.finish(RULE, trusted_extra=("Biopython 1.81 SeqIO GenBank writer/reader and orjson are exercised, not modelled",))


def replay(chk, path):
    doc = pyjson.load(open(path))
    if "flat" in doc:
        print("model:", common.run_driver([doc["flat"]])[0], "recorded implementation:", doc.get("implementation"))
    else:
        print(doc.get("what"), doc.get("details"))
    return 0
