"""C03: correspondence for protocluster formation on linear records: the real pipeline
(detect_protoclusters_and_signatures with dynamic profiles and rules produced by the real parser)
against the sweep model, plus an implementation-side oracle (components of the proximity graph)."""
import itertools
import re

import common
import detect_util
from common import err_code

PROP = 3


def gen_case(rng):
    """ a linear record, 1-3 single-profile rules with own cutoff/neighbourhood, genes with gaps on the cutoffs """
    n_rules = rng.choice([1, 1, 2, 3])
    rules = []
    for r in range(n_rules):
        rules.append((rng.choice([1, 1, 2, 5]) * 1000, rng.choice([0, 1, 3, 10]) * 1000))
    cutoffs = [c for c, _ in rules]
    n_genes = rng.choice([1, 2, 3, 4, 5, 6, 8, 10])
    genes = []
    seen = set()
    pos = rng.choice([0, 0, 50, 300])
    for i in range(n_genes):
        length = rng.choice([30, 90, 300, 900, 3000])
        r = rng.random()
        if r < 0.15 and genes:
            # nested in or overlapping the previous gene
            ps, pe = genes[-1][1]
            start = rng.randint(ps, max(ps, pe - 1))
        else:
            start = pos
        end = start + length
        if (start, end) not in seen:
            seen.add((start, end))
            genes.append((f"g{i}", (start, end), rng.choice([1, -1])))
        cutoff = rng.choice(cutoffs)
        gap = rng.choice([0, 1, cutoff - 1, cutoff, cutoff + 1, cutoff + 500, 3 * cutoff, 12000])
        pos = max(pos, end) + gap
    length = max(e for _, (_, e), _ in genes) + rng.choice([0, 0, 1, 50, 1000, 6000])
    hits = {}
    for name, _, _ in genes:
        profs = {f"p{r}" for r in range(n_rules) if rng.random() < 0.65}
        if profs:
            hits[name] = profs
    return length, rules, genes, hits


def expected_components(anchors, cutoff):
    """ oracle: connected components of 'closer than the cutoff' among (start, end) intervals """
    parent = list(range(len(anchors)))

    def find(x):
        while parent[x] != x:
            x = parent[x]
        return x
    for a, b in itertools.combinations(range(len(anchors)), 2):
        (s1, e1), (s2, e2) = anchors[a], anchors[b]
        gap = max(s1, s2) - min(e1, e2)          # < 0 when overlapping
        if max(gap, 0) < cutoff:
            parent[find(a)] = find(b)
    comps = {}
    for i, iv in enumerate(anchors):
        comps.setdefault(find(i), []).append(iv)
    return sorted((min(s for s, _ in c), max(e for _, e in c)) for c in comps.values())


RULE = ("linear records, 1-3 rules 'RULE r CATEGORY c CUTOFF x NEIGHBOURHOOD y CONDITIONS p' parsed by the real parser (kilobase "
        "scaling included), dynamic profiles, 1-10 genes on both strands incl. nested/overlapping ones with gaps on "
        "{0, 1, cutoff-1, cutoff, cutoff+1, far} for one of the rules' cutoffs, record end at or beyond the last gene; "
        "non-trivial = some rule has >= 2 anchoring genes; distinct by flat encoding")


def run_linear(chk):
    rng = chk.rng
    total = 3000 if chk.tier == "quick" else 40000
    cases, impl_outs = [], []
    for _ in range(total):
        length, rules, genes, hits = gen_case(rng)
        text = "\n".join(f"RULE r{i} CATEGORY c CUTOFF {c // 1000} NEIGHBOURHOOD {nb // 1000} CONDITIONS p{i}"
                         for i, (c, nb) in enumerate(rules))
        profiles = [f"p{i}" for i in range(len(rules))]
        flat = [PROP, 1, length, len(rules)]
        anchors_by_rule = []
        for i, (c, nb) in enumerate(rules):
            anchors = [iv for name, iv, _ in genes if f"p{i}" in hits.get(name, ())]
            anchors_by_rule.append(anchors)
            flat += [c, nb, len(anchors)] + [x for iv in anchors for x in iv]
        try:
            record = detect_util.make_record(length, False, [(n, [(s, e, st)]) for n, (s, e), st in genes])
            ruleset = detect_util.make_ruleset(text, profiles, hits)
            result = detect_util.detect(record, ruleset)
            per_rule = [[] for _ in rules]
            for proto in result.protoclusters:
                idx = int(proto.product[1:])
                core, full = detect_util.loc_parts(proto.core_location), detect_util.loc_parts(proto.location)
                if len(core) != 1 or len(full) != 1:
                    per_rule[idx].append((-7, -7, -7, -7))
                    continue
                per_rule[idx].append(core[0] + full[0])
            out = [len(rules)]
            for idx, protos in enumerate(per_rule):
                protos.sort()
                out += [len(protos)] + [x for p in protos for x in p]
                # oracle on the implementation's output: cores are the hulls of the proximity components
                want = expected_components(anchors_by_rule[idx], rules[idx][0])
                got = [(p[0], p[1]) for p in protos]
                if got != want:
                    chk.violation("counterexample", "protocluster cores are not the maximal cutoff-chains of the anchoring genes",
                                  {"theorem_or_correspondence": "C03_chain_linear / detect_protoclusters_and_signatures",
                                   "input": {"length": length, "rule": rules[idx], "anchors": anchors_by_rule[idx], "genes": genes},
                                   "implementation_cores": got, "expected_cores": want, "flat": flat})
        except Exception as exc:  # pylint: disable=broad-except
            out = [-1, err_code(exc)]
            chk.count("error_" + common.ERR_NAME.get(out[1], type(exc).__name__))
        cases.append(flat)
        impl_outs.append(out)
        chk.count(f"rules_{len(rules)}")
        chk.count(f"protoclusters_{min(sum(len(a) > 0 for a in anchors_by_rule), 3)}")
        chk.note_case(flat, any(len(a) >= 2 for a in anchors_by_rule),
                      {"length": length, "rules": rules, "genes": genes, "hits": {k: sorted(v) for k, v in hits.items()},
                       "implementation": out})
    model_outs = common.correspondence(chk, cases, impl_outs,
                                       describe=lambda flat: {"function": "detect_protoclusters_and_signatures (linear)", "payload": flat[2:]})
    chk.crosscheck_vm(cases, model_outs, k=(100 if chk.tier == "quick" else 800))



# ------------------------------------------------------------------ the full pipeline (fn 2..4)
NPROF = 5
COND_TEMPLATES = [
    "{a}", "{a}", "{a} or {b}", "{a} and {b}", "{a} and {b}", "minimum(2, [{a}, {b}, {c}])", "cds({a} and {b})",
    "{a} and not {b}", "({a} or {b}) and {c}", "cds({a} and not {b}) or {c}", "{a} and cds({b} or {c})",
    "minimum(2, [{a}, {b}]) or {c}",
]
EXT_TEMPLATES = ["{a}", "{a}", "cds({a} and {b})", "cds({a} or {b})", "cds({a} and not {b})"]


def gen_rules(rng, scenario):
    """ -> [(cutoff_kb, nb_kb, condition text, extender text or None, [superior indices])] """
    n_rules = rng.choice([1, 2, 2, 3, 3, 4])
    palette = rng.sample([1, 2, 5, 20], 2)
    rules = []
    shared = None
    for i in range(n_rules):
        cutoff = rng.choice(palette)
        profs = rng.sample(range(NPROF), 3)
        names = dict(zip("abc", (f"p{x}" for x in profs)))
        cond = rng.choice(COND_TEMPLATES).format(**names)
        if scenario == "cache" and n_rules >= 3:
            # wide, narrow, wide: the two wide rules need a partner gene
            wide, narrow = max(palette), min(palette)
            cutoff = narrow if i % 2 else wide
            if i % 2 == 0:
                shared = shared or rng.choice(["{a} and {b}", "minimum(2, [{a}, {b}])", "{a} and {b} or {c}"]).format(**names)
                cond = shared
        ext = None
        if rng.random() < 0.35:
            eprofs = rng.sample(range(NPROF), 2)
            ext = rng.choice(EXT_TEMPLATES).format(a=f"p{eprofs[0]}", b=f"p{eprofs[1]}")
        sups = []
        if i and rng.random() < 0.35:
            sups = sorted(rng.sample(range(i), rng.randint(1, min(i, 2))))
        rules.append((cutoff, rng.choice([0, 1, 3, 10]), cond, ext, sups))
    return rules


def rules_text(rules):
    lines = []
    for i, (cutoff, nb, cond, ext, sups) in enumerate(rules):
        line = f"RULE r{i} CATEGORY c "
        if sups:
            line += "SUPERIORS " + ", ".join(f"r{s}" for s in sups) + " "
        line += f"CUTOFF {cutoff} NEIGHBOURHOOD {nb} CONDITIONS {cond}"
        if ext:
            line += f" EXTENDERS {ext}"
        lines.append(line)
    return "\n".join(lines)


def gen_layout(rng, cutoffs, circular, scenario):
    """ -> (length, [(name, [(start, end, strand)...])]) ; genes have pairwise different (start, end) """
    n_genes = rng.choice([1, 2, 3, 3, 4, 5, 6, 8, 10])
    genes, seen = [], set()
    narrow, wide = min(cutoffs), max(cutoffs)
    if scenario in ("cache", "origin") and circular:
        pos = rng.choice([0, 50, narrow, narrow + 200, narrow + 500])
    else:
        pos = rng.choice([0, 0, 50, 300, 1000])
    for i in range(n_genes):
        length = rng.choice([30, 90, 300, 900, 3000])
        if rng.random() < 0.15 and genes:
            ps_, pe_ = genes[-1][1][0][:2]
            start = rng.randint(ps_, max(ps_, pe_ - 1))
        else:
            start = pos
        end = start + length
        if (start, end) not in seen:
            seen.add((start, end))
            genes.append((f"g{i}", [(start, end, rng.choice([1, -1]))]))
        cutoff = rng.choice(cutoffs)
        gap = rng.choice([0, 1, cutoff - 1, cutoff, cutoff + 1, cutoff + 500, 3 * cutoff, 12000, 30000])
        pos = max(pos, end) + gap
    first = min(s for _, [(s, _, _)] in genes)
    last = max(e for _, [(_, e, _)] in genes)
    if not circular:
        return last + rng.choice([0, 0, 1, 50, 1000, 6000]), genes
    cutoff = rng.choice(cutoffs)
    if scenario in ("cache", "origin"):
        ring_gap = rng.choice([wide - 1, wide - 1, wide - 300, wide, narrow + first + 100, 2 * narrow + first])
    else:
        ring_gap = rng.choice([0, 1, cutoff - 1, cutoff, cutoff + 1, cutoff + 500, 3 * cutoff, 12000, 40000])
    length = last + max(0, ring_gap - first)
    if rng.random() < 0.12 and first >= 2 and length > last:
        # an origin-spanning gene in the free space around the origin
        hi = rng.randint(last, length - 1)
        lo = rng.randint(1, first - 1)
        strand = rng.choice([1, -1])
        parts = [(hi, length, strand), (0, lo, strand)]
        if strand == -1:
            parts.reverse()
        genes.append((f"g{len(genes) + 5}", parts))
    return max(length, 1), genes


def rotate_layout(genes, offset, length):
    """ the same ring read from another origin; None if a gene would be cut by the new origin """
    out = []
    for name, [(start, end, strand)] in genes:
        new_start = (start + offset) % length
        new_end = new_start + (end - start)
        if new_end > length:
            return None
        out.append((name, [(new_start, new_end, strand)]))
    return out


def gen_focus(rng):
    """ focused layouts for the later stages (apply_extenders, merge_over_origin): one rule 'p0 EXTENDERS <p1...>' (and
        sometimes a second plain rule), short genes whose gaps sit on the boundaries of the extender walk (two chains one
        cutoff apart with an extender gene half way), long genes lying over several short ones, and - on circular
        records - the origin put into any of the gaps, so that chains of three and more clusters meet at the origin
        -> (length, circular, rules, genes, hits) """
    circular = rng.random() < 0.75
    cut_kb = rng.choice([1, 1, 2])
    cut = cut_kb * 1000
    ext = rng.choice(["p1", "p1", "p1", "cds(p1 or p2)", "cds(p1 and not p3)"])
    rules = [(cut_kb, rng.choice([0, 0, 1, 3]), rng.choice(["p0", "p0", "p0", "p0 or p2"]), ext, [])]
    if rng.random() < 0.35:
        rules.append((rng.choice([1, 2, 5]), rng.choice([0, 1, 10]), rng.choice(["p0", "p3", "p0 or p1", "p1"]),
                      rng.choice([None, None, "p3", "p1"]), [0] if rng.random() < 0.4 else []))
    n_genes = rng.choice([3, 4, 5, 5, 6, 7, 8])
    gaps = [0, 1, cut // 2 - 51, cut // 2 - 50, cut // 2 - 50, cut // 2 - 50, cut // 2 - 49, cut // 2, cut - 101, cut - 100,
            cut - 1, cut, cut + 1, 3 * cut, 3 * cut]
    genes, seen = [], set()
    pos = rng.choice([0, 50, 300])
    short_end = None
    for i in range(n_genes):
        length = rng.choice([100, 100, 100, 100, 300, 900])
        if rng.random() < 0.2 and genes:
            # a long gene starting inside (or with) the previous one and lying over what follows
            ps_, pe_ = genes[-1][1][0][:2]
            start = rng.choice([ps_, ps_ + 1, (ps_ + pe_) // 2, pe_ - 1])
            length = rng.choice([pe_ - start + 1, 600, 900, 1500, 3000])
            short_end = pe_
        else:
            start = pos
        end = start + length
        if (start, end) not in seen:
            seen.add((start, end))
            genes.append((f"g{i}", [(start, end, rng.choice([1, 1, -1]))]))
        if short_end is not None and rng.random() < 0.7:
            # the next gene follows the short gene, under the long one
            pos = short_end + rng.choice([0, 1, 100, 200, 400])
        else:
            pos = max(pos, end) + rng.choice(gaps)
        short_end = None
    first = min(s for _, [(s, _, _)] in genes)
    last = max(e for _, [(_, e, _)] in genes)
    hits = {}
    for name, _ in genes:
        profs = set()
        role = rng.random()
        if role < 0.5:
            profs.add("p0")
        elif role < 0.85:
            profs.add("p1")
        for extra, prob in (("p0", 0.05), ("p1", 0.05), ("p2", 0.15), ("p3", 0.12)):
            if rng.random() < prob:
                profs.add(extra)
        if profs:
            hits[name] = profs
    if not circular:
        return last + rng.choice([0, 1, 50, 1000, 6000]), False, rules, genes, hits
    length = last + max(1, rng.choice(gaps + [5 * cut, 12000]) - first)
    # the origin goes into one of the gaps: candidates are the ends and the middle of every stretch no gene covers
    free, reach = [], 0
    for _, [(start, end, _)] in sorted(genes, key=lambda g: g[1][0][0]):
        if start > reach:
            free.append((reach, start))
        reach = max(reach, end)
    free.append((reach, length))
    lo, hi = rng.choice(free)
    cut_at = rng.choice([lo, hi, (lo + hi) // 2, min(hi, lo + 1), max(lo, hi - 1)])
    rotated = rotate_layout(genes, (-cut_at) % length, length)
    if rotated is not None and rng.random() < 0.85:
        genes = rotated
    return length, True, rules, genes, hits


def enc_cond(cond):
    """ a parsed rule_parser condition object -> flat encoding of the Gallina type C01.Model.cond """
    kind = type(cond).__name__
    neg = int(cond.negated)
    if kind == "SingleCondition":
        return [0, neg, int(cond.name[1:])]
    if kind == "ScoreCondition":
        return [1, neg, int(cond.name[1:]), cond.score]
    if kind == "MinimumCondition":
        opts = sorted(int(o[1:]) for o in cond.options)
        return [2, neg, cond.count, len(opts)] + opts
    if kind not in ("CDSCondition", "Conditions"):
        raise ValueError(f"unexpected condition class {kind}")
    out = [3 if kind == "CDSCondition" else 4, neg, len(cond.operands)]
    for sub in cond.operands:
        if type(sub).__name__ == "AndCondition":
            out += [1, len(sub.operands)]
            for leaf in sub.operands:
                out += enc_cond(leaf)
        else:
            out += [0] + enc_cond(sub)
    return out


def enc_loc_parts(parts):
    out = [len(parts)]
    for s, e, st in parts:
        out += [s, e, 2 if st is None else st]
    return out


def loc_triples(location):
    return [(int(p.start), int(p.end), p.strand) for p in location.parts]


def arc_of(parts, length):
    """ gene parts [(start, end, strand)...] -> (start, end) ; an origin-spanning gene is (hi, length + lo) """
    if len(parts) == 1:
        return tuple(parts[0][:2])
    hi = max(s for s, _, _ in parts)
    lo = min(e for _, e, _ in parts)
    return (hi, length + lo)


def ring_oracle(length, circular, cutoff, anchors):
    """ independent oracle for rules without extenders, anchors = [(start, end)], an anchor spanning the origin
        being (start, length + end): connected components of 'closer than the cutoff' (ring distance on a
        circular record); each component's core must start at a member's start, end at a member's end, contain
        every member and no anchor of another component.  Returns the components as sorted lists of anchors. """
    parent = list(range(len(anchors)))

    def find(x):
        while parent[x] != x:
            x = parent[x]
        return x

    def gap(a, b):
        (s1, e1), (s2, e2) = a, b
        if not circular:
            return max(max(s1, s2) - min(e1, e2), 0)
        # overlapping arcs: one starts inside (or at the start of) the other
        if (s2 - s1) % length < e1 - s1 or (s1 - s2) % length < e2 - s2:
            return 0
        return min((s2 - e1) % length, (s1 - e2) % length)
    for a, b in itertools.combinations(range(len(anchors)), 2):
        if gap(anchors[a], anchors[b]) < cutoff:
            parent[find(a)] = find(b)
    comps = {}
    for i, iv in enumerate(anchors):
        comps.setdefault(find(i), []).append(iv)
    return sorted(sorted(c) for c in comps.values())


def in_parts(iv, parts, length=None):
    """ is the anchor covered by the core parts; an origin-spanning anchor (end > length) needs both of its sides """
    if length is not None and iv[1] > length:
        return in_parts((iv[0], length), parts) and in_parts((0, iv[1] - length), parts)
    return any(s <= iv[0] and iv[1] <= e for s, e, _ in parts)


def covered(parts, length):
    """ the bases of [(start, end, strand)...] inside [0, length) as sorted disjoint maximal intervals """
    ivs = sorted((max(0, s), min(length, e)) for s, e, _ in parts if min(length, e) > max(0, s))
    out = []
    for s, e in ivs:
        if out and s <= out[-1][1]:
            out[-1] = (out[-1][0], max(out[-1][1], e))
        else:
            out.append((s, e))
    return out


def expected_extent(core, nb, length, circular):
    """ independent oracle for the neighbourhood: the bases within nb of the core on either side, clipped at the
        ends of a linear record, wrapped round the origin of a circular one; None = core shape not covered here """
    if len(core) == 1:
        lo, hi = core[0][0], core[0][1]
    elif circular and len(core) == 2 and core[0][1] == length and core[1][0] == 0 and core[1][1] <= core[0][0]:
        lo, hi = core[0][0], length + core[1][1]
    else:
        return None
    if not circular:
        return [(max(0, lo - nb), min(length, hi + nb))]
    if hi - lo + 2 * nb >= length:
        return [(0, length)]
    a, b = lo - nb, hi + nb          # b - a < length
    shift = (a % length) - a
    a, b = a + shift, b + shift      # 0 <= a < length
    if b <= length:
        return [(a, b)]
    return covered([(a, length, 1), (0, b - length, 1)], length)


def neighbourhood_verdict(meta, protos):
    """ every reported protocluster covers exactly its core extended by the rule's neighbourhood (C03_neighbourhood_linear /
        C03_neighbourhood_ring), evaluated on the implementation's output """
    length, circular, rules = meta["length"], meta["circular"], meta["parsed"]
    for ridx, core, sur in protos:
        want = expected_extent(core, rules[ridx]["nb"], length, circular)
        if want is None:
            continue
        got = covered(sur, length)
        if got == want:
            continue
        # the recorded class C03-K6: the core passes the origin, its neighbourhood fills the record, and the midpoint /
        # halfway split of the extent leaves one or two bases between the two parts uncovered
        if circular and len(core) == 2 and want == [(0, length)] and len(sur) == 2 and len(got) == 2 \
                and got[0][0] == 0 and got[1][1] == length and 1 <= got[1][0] - got[0][1] <= 2 \
                and core[1][1] - 1 <= got[0][1] and got[1][0] <= core[0][0]:
            return "neighbourhood_split_short", (f"rule r{ridx}: core {core} with neighbourhood {rules[ridx]['nb']} fills the record "
                                                 f"but the extent {sur} leaves base(s) [{got[0][1]}:{got[1][0]}) out")
        return "neighbourhood_wrong", (f"rule r{ridx}: extent {sur} of core {core} is not the core extended by the "
                                       f"neighbourhood {rules[ridx]['nb']} on both sides (expected bases {want})")
    return None


def arc_gap(a, b, length, circular):
    """ bases between two arcs (start, end) - an arc over the origin is (start, length + end) -; 0 when they share a base """
    (s1, e1), (s2, e2) = a, b
    if not circular:
        return max(max(s1, s2) - min(e1, e2), 0)
    if e1 - s1 >= length or e2 - s2 >= length:
        return 0
    if (s2 - s1) % length < e1 - s1 or (s1 - s2) % length < e2 - s2:
        return 0
    return min((s2 - e1) % length, (s1 - e2) % length)


def arcs_share_base(a, b, length, circular):
    (s1, e1), (s2, e2) = a, b
    if not circular:
        return max(s1, s2) < min(e1, e2)
    if e1 - s1 >= length or e2 - s2 >= length:
        return True
    return (s2 - s1) % length < e1 - s1 or (s1 - s2) % length < e2 - s2


def core_arc(core, length):
    """ a reported core [(start, end, strand)...] as an arc; None = not a span """
    if len(core) == 1:
        return (core[0][0], core[0][1])
    if len(core) == 2 and core[0][1] == length and core[1][0] == 0:
        return (core[0][0], length + core[1][1])
    return None


def separation_verdict(meta, protos):
    """ maximality, every rule (EXTENDERS and SUPERIORS included): two protoclusters reported for one rule are never closer
        than the rule's cutoff (ring distance on a circular record; 0 when the cores share a base) - they would be one group.
        Independent interval arithmetic on the implementation's output. """
    length, circular, rules = meta["length"], meta["circular"], meta["parsed"]
    for ridx, rule in enumerate(rules):
        arcs = [(core_arc(p[1], length), p[1]) for p in protos if p[0] == ridx]
        for (a, ca), (b, cb) in itertools.combinations(arcs, 2):
            if a is None or b is None:
                continue
            gap = arc_gap(a, b, length, circular)
            if gap < rule["cutoff"]:
                # class of the repaired finding C03-K7 (status fixed: a VIOLATION if it comes back): circular record
                # only (on a linear record the start-sorted adjacent scan of merge_over_origin is complete; on a
                # circular one the second, pairwise pass of merge_over_origin now joins what the scan left)
                cls = "merge_scan_adjacent_only" if circular else "cores_closer_than_cutoff"
                return cls, (f"rule r{ridx}: two protoclusters with cores {ca} and {cb} are {gap} apart, closer than the "
                             f"cutoff {rule['cutoff']}: not maximal groups")
    return None


EXT_TOKEN = re.compile(r"\s*(cds|and|or|not|\(|\)|p\d+)")


def extender_holds(text, profiles):
    """ independent evaluation of an EXTENDERS condition on ONE gene with the given profile names (cds(...) of a single
        gene is its content); None = not a condition this small evaluator covers """
    pos, tokens = 0, []
    text = text.strip()
    while pos < len(text):
        match = EXT_TOKEN.match(text, pos)
        if not match:
            return None
        tokens.append(match.group(1))
        pos = match.end()
    expr = " ".join("" if t == "cds" else (str(t in profiles) if t.startswith("p") else t) for t in tokens)
    try:
        return bool(eval(expr, {"__builtins__": {}}, {}))     # only True/False/and/or/not/parentheses reach this point
    except Exception:  # pylint: disable=broad-except
        return None


def extender_verdict(meta, protos):
    """ rules with EXTENDERS: every gene that satisfies the extender condition and shares a base with the core of a
        reported protocluster of the rule lies in that core (distance 0 from the core: it is admitted whatever its shape
        or place in the gene order) """
    length, circular = meta["length"], meta["circular"]
    for ridx, line in enumerate(meta["rules"]):
        if " EXTENDERS " not in line:
            continue
        ext = line.split(" EXTENDERS ", 1)[1]
        for name, parts in meta["genes"]:
            holds = extender_holds(ext, set(meta["hits"].get(name, ())))
            if not holds:
                continue
            arc = arc_of(parts, length)
            for p in protos:
                if p[0] != ridx:
                    continue
                core = core_arc(p[1], length)
                if core is None or not arcs_share_base(arc, core, length, circular):
                    continue
                inside = in_parts(arc, p[1], length) if circular else in_parts(arc, p[1])
                if not inside:
                    return "extender_overlapping_core_not_admitted", (
                        f"rule r{ridx}: gene {name} {parts} satisfies EXTENDERS ({ext}) and overlaps the core {p[1]} "
                        f"but was not admitted to it")
    return None


def window_fills_record(meta):
    """ input-level class of the repaired finding C03-K8 (status fixed; only names the VIOLATION class now): a circular
        record on which the cutoff window of some gene with hits covers the whole record, so that _extend_area_location
        returns one part - circular_origin used to stay 0 there """
    if not meta["circular"]:
        return False
    length = meta["length"]
    for name, parts in meta["genes"]:
        if name not in meta["hits"]:
            continue
        glen = sum(e - s for s, e, _ in parts)
        for rule in meta["parsed"]:
            if 2 * min(rule["cutoff"], (length - glen) // 2 + 1) + glen >= length:
                return True
    return False


def anchors_verdict(meta, anchors):
    """ the anchoring genes of every rule (model of apply_cluster_rules, equal to the implementation's whenever the
        protoclusters agree) are those of the specification: each rule evaluated over the whole record with the ring
        distance on a circular record (Gallina anchors_spec, function id 6) """
    spec = meta.get("anchors_spec")
    if spec is None or anchors is None or spec == anchors:
        return None
    diff = {r: (sorted(anchors.get(r, [])), sorted(spec.get(r, []))) for r in set(anchors) | set(spec)
            if sorted(anchors.get(r, [])) != sorted(spec.get(r, []))}
    cls = "anchor_window_full_record" if window_fills_record(meta) else "anchors_wrong"
    return cls, (f"anchoring genes per rule (got, expected by ring distance over the whole record): {diff}")


RULE_FULL = ("full pipeline: linear and circular records (2:1 circular), 1-10 single-exon genes on both strands incl. nested/overlapping "
             "ones with gaps on {0, 1, cutoff-1, cutoff, cutoff+1, far} and, on circular records, a first/last gap across the origin on "
             "the same boundaries and (12 %) one origin-spanning two-part gene; 1-4 rules from the real parser with cutoffs drawn "
             "from two of {1, 2, 5, 20} kb, neighbourhoods {0, 1, 3, 10} kb, conditions from 12 templates (single, and, or, not, "
             "minimum, cds), EXTENDERS (35 %), SUPERIORS (35 %); 0-5 dynamic profile hits per gene; scenarios 'cache' (wide, narrow, "
             "wide cutoffs with a partner gene across the origin) and 'origin' bias a quarter of the circular cases; genes have "
             "pairwise different (start, end) because the order of equal-key anchors follows set iteration order; fixed "
             "boundary records (last chain exactly one cutoff / one base less from an origin-spanning gene or from the first "
             "chain through the origin; SUPERIORS with a core over the origin and the same genes rotated; an extender-bridged "
             "chain over the origin; record lengths 4100/4101 around the point where the cutoff window fills the record; the "
             "repaired classes C03-K8 under 'not' and C03-K7 with the missed merge away from the origin, each also rotated) run "
             "first; plus 1500/12000 'focus' records for apply_extenders and merge_over_origin: one rule 'p0 EXTENDERS ...' "
             "(35 % a second rule), 3-8 short genes with gaps on {0, 1, cutoff/2-51..cutoff/2, cutoff-101, cutoff-100, cutoff-1, "
             "cutoff, cutoff+1, 3 cutoff} (two chains one cutoff apart with an extender gene half way), 20 % long genes starting "
             "inside the previous gene and lying over the following ones, 75 % circular with the origin put at an end or the "
             "middle of any gene-free stretch (chains of three and more clusters meeting at the origin); every reported "
             "protocluster is checked against independent oracles evaluated on the implementation's output: chains (rules "
             "without EXTENDERS/SUPERIORS), superiors (linear), separation (all rules: cores of one rule >= cutoff apart), "
             "extenders (every gene satisfying EXTENDERS that shares a base with a core of its rule lies in it), neighbourhood, "
             "and the anchoring genes against the Gallina specification anchors_spec (function id 6); "
             "non-trivial = at least one protocluster reported or an exception raised")



def classify(length, circular, genes, anchors_by_rule, rules):
    """ input-level classes of the recorded findings """
    classes = set()
    spanning = {i for i, (_, parts) in enumerate(genes) if len(parts) > 1}
    if any(spanning & set(a) for a in anchors_by_rule.values()):
        classes.add("origin_spanning_anchor")
    return classes


def build_case(chk, length, circular, text, genes, hits, scenario="plain"):
    """ runs the real pipeline on one record/ruleset and encodes input and output; None if the input is rejected """
    from antismash.common.hmm_rule_parser import cluster_prediction
    profiles = [f"p{x}" for x in range(NPROF)]
    meta = {"length": length, "circular": circular, "rules": text.split("\n"), "genes": genes,
            "hits": {k: sorted(v) for k, v in hits.items()}, "scenario": scenario}
    try:
        record = detect_util.make_record(length, circular, genes)
        ruleset = detect_util.make_ruleset(text, profiles, hits)
    except Exception as exc:  # pylint: disable=broad-except
        chk.count("generator_rejected_" + type(exc).__name__)
        return None
    # the record's gene order and the order of results_by_id are inputs of the model
    index = {name: i for i, (name, _) in enumerate(genes)}
    ordered = [(index[cds.get_name()], loc_triples(cds.location)) for cds in record.get_cds_features()]
    dyn = cluster_prediction.find_dynamic_hits(record, list(ruleset.dynamic_profiles.values()), {})
    flat = [PROP, 2, length, int(circular), len(ordered)]
    for gid, parts in ordered:
        flat += [gid] + enc_loc_parts(parts)
    flat.append(len(dyn))
    for name, dhits in dyn.items():
        flat += [index[name], len(dhits)]
        for hit in dhits:
            flat += [int(hit.query_id[1:]), int(2 * hit.bitscore)]
    flat.append(len(ruleset.rules))
    for rule in ruleset.rules:
        flat += [rule.cutoff, rule.neighbourhood] + enc_cond(rule.conditions)
        flat += ([1] + enc_cond(rule.extenders)) if rule.extenders else [0]
        flat += [len(rule.superiors)] + [int(s[1:]) for s in rule.superiors]
    meta["parsed"] = [{"cutoff": r.cutoff, "nb": r.neighbourhood, "ext": bool(r.extenders),
                       "sups": [int(s[1:]) for s in r.superiors]} for r in ruleset.rules]
    try:
        result = common.call_with_timeout(lambda: detect_util.detect(record, ruleset), 20)
        protos = []
        for proto in result.protoclusters:
            protos.append([int(proto.product[1:])] + enc_loc_parts(loc_triples(proto.core_location))
                          + enc_loc_parts(loc_triples(proto.location)))
        protos.sort()
        out = [0, len(protos)] + [x for p in protos for x in p]
        meta["implementation"] = [(p[0], p[1:]) for p in protos]
        chk.count(f"full_protoclusters_{min(len(protos), 4)}")
    except Exception as exc:  # pylint: disable=broad-except
        out = [1, err_code(exc)]
        meta["implementation"] = "raises " + type(exc).__name__ + ": " + str(exc)[:200]
        chk.count("full_error_" + common.ERR_NAME.get(out[1], type(exc).__name__))
    return flat, out, meta


def run_full(chk, recorded):
    rng = chk.rng
    total = 4000 if chk.tier == "quick" else 36000
    cases, impl_outs, metas = [], [], []
    # stored witnesses first: those of the known findings (they must still reproduce for a KNOWN-FINDING line) and, as
    # the regression corpus, those of the repaired ones (status fixed: nothing is suppressed for them, the
    # implementation must agree with the model and satisfy the specification on them)
    stored = []
    for entry in recorded:
        stored.append((entry, entry.get("witness", {}), entry.get("status", "known")))
        # the part of a known class that has been repaired keeps its old witness as a regression case
        stored.append((entry, entry.get("repaired_part_witness", {}), "fixed"))
    for entry, wit, status in stored:
        if "genes" not in wit:
            continue
        chk.count("witness_" + status)
        genes = [(n, [tuple(p) for p in parts]) for n, parts in wit["genes"]]
        built = build_case(chk, wit["length"], wit["circular"], "\n".join(wit["rules"]), genes,
                           {k: set(v) for k, v in wit["hits"].items()}, "witness")
        if built:
            built[2]["witness_of" if status == "known" else "regression_of"] = entry["class"]
            for lst, item in zip((cases, impl_outs, metas), built):
                lst.append(item)
    # fixed boundary records (the Coq Example C03_origin_spanning_chain and its neighbours): an origin-spanning gene
    # [19500:20000)+[0:300) and a last chain ending exactly one cutoff (2000) / one base less before it, with a chain in
    # between: the first/last wrap test of find_protoclusters and merge_over_origin at the strict boundary
    for last_start in (16500, 16501, 17000):
        for spanning in (True, False):
            genes = [("g0", [(1000, 1300, 1)]), ("g1", [(10000, 10300, 1)]), ("g2", [(last_start, last_start + 1000, -1)])]
            if spanning:
                genes.append(("g5", [(19500, 20000, 1), (0, 300, 1)]))
            else:
                genes[2] = ("g2", [(last_start + 2300, last_start + 2500, -1)])    # 999 / 1000 / 1499 before the origin + 1000
            built = build_case(chk, 20000, True, "RULE r0 CATEGORY c CUTOFF 2 NEIGHBOURHOOD 1 CONDITIONS p0", genes,
                               {name: {"p0"} for name, _ in genes}, "boundary")
            if built:
                chk.count("full_boundary")
                for lst, item in zip((cases, impl_outs, metas), built):
                    lst.append(item)
    # fixed records of the third pass: SUPERIORS on a circular record with the inferior's / the superior's core over the
    # origin and the same genes read from another origin (reports decided under C03-K1 / C07 F38: correspondence only),
    # the extender-bridged chain over the origin that merge_over_origin does join (seed layout), and the two short
    # records around the length at which the cutoff window stops filling the record (C03-K8 boundary)
    sup = "RULE r0 CATEGORY c CUTOFF 1 NEIGHBOURHOOD 0 CONDITIONS p0\nRULE r1 CATEGORY c SUPERIORS r0 CUTOFF 1 NEIGHBOURHOOD 0 CONDITIONS p1"
    ext = "RULE r0 CATEGORY c CUTOFF 1 NEIGHBOURHOOD 0 CONDITIONS p0 EXTENDERS p1"
    win = "RULE r0 CATEGORY c CUTOFF 2 NEIGHBOURHOOD 0 CONDITIONS p0 and p1"
    fixed = []
    for off in (0, 5000, 1000):
        fixed.append((10000, sup, [("g0", [(9700, 9800, 1)]), ("g1", [(100, 200, 1)])], {"g0": {"p1"}, "g1": {"p0", "p1"}}, off))
    for off in (0, 3000):
        fixed.append((10000, sup, [("g0", [(9700, 9800, 1)]), ("g1", [(100, 200, 1)]), ("g2", [(600, 700, 1)])],
                      {"g0": {"p0"}, "g1": {"p0", "p1"}, "g2": {"p1"}}, off))
    for off in (0, 3000, 9000):
        fixed.append((10000, ext, [("g0", [(100, 200, 1)]), ("g1", [(650, 750, 1)]), ("g2", [(1200, 1300, 1)]), ("g3", [(5000, 5100, 1)]),
                                   ("g4", [(9500, 9600, 1)])],
                      {"g0": {"p0"}, "g1": {"p1"}, "g2": {"p0"}, "g3": {"p0"}, "g4": {"p0"}}, off))
    for length in (4100, 4101):
        fixed.append((length, win, [("g0", [(100, 200, 1)]), ("g1", [(length - 200, length - 100, 1)])], {"g0": {"p0"}, "g1": {"p1"}}, 0))
    # regression records of the repaired findings, next to their stored witnesses: C03-K8 under 'not' (the partner gene is
    # in range only over the origin of a record the cutoff window fills: no anchoring gene) and rotated; C03-K7 in its
    # second shape, in which the merge that the adjacent-only scan missed does not go over the origin at all (g0 and g2
    # one cutoff apart, both grown to the extender g1; g0's extension wraps below 0 and g3's beyond the end, so the
    # sort order is g0, g3, g2 and g2 was never compared with g0), and the same ring read from another origin
    win_not = "RULE r0 CATEGORY c CUTOFF 2 NEIGHBOURHOOD 0 CONDITIONS p0 and not p1"
    for off in (0, 2000):
        fixed.append((4000, win_not, [("g0", [(100, 200, 1)]), ("g1", [(3800, 3900, 1)])], {"g0": {"p0"}, "g1": {"p1"}}, off))
    for off in (0, 5000, 9000):
        fixed.append((10000, ext, [("g0", [(900, 1000, 1)]), ("g1", [(1450, 1550, 1)]), ("g2", [(2000, 2100, 1)]), ("g3", [(9400, 9500, 1)])],
                      {"g0": {"p0"}, "g1": {"p1"}, "g2": {"p0"}, "g3": {"p0"}}, off))
    for length, text, genes, hits, off in fixed:
        genes = rotate_layout(genes, off, length)
        built = genes and build_case(chk, length, True, text, genes, hits, "boundary")
        if built:
            chk.count("full_boundary")
            for lst, item in zip((cases, impl_outs, metas), built):
                lst.append(item)
    # C03-K10 and its boundary: a chain through an origin-spanning gene [7000:12000)+[0:20) whose member before the origin
    # has its middle in the lower (5400, 5600: put on the wrong side, class C03-K10) / upper (6050: right side) half of
    # the record, with and without a second chain [2500:2800) that the wrong arc swallows
    plain = "RULE r0 CATEGORY c CUTOFF 2 NEIGHBOURHOOD 0 CONDITIONS p0"
    for before in ((5000, 5800), (5200, 6000), (5600, 6500)):
        for second in (True, False):
            genes = [("g0", [(50, 80, -1)]), ("g2", [before + (1,)]), ("g5", [(7000, 12000, 1), (0, 20, 1)])]
            if second:
                genes.insert(1, ("g1", [(2500, 2800, 1)]))
            built = build_case(chk, 12000, True, plain, genes, {name: {"p0"} for name, _ in genes}, "boundary")
            if built:
                chk.count("full_boundary")
                for lst, item in zip((cases, impl_outs, metas), built):
                    lst.append(item)
    for _ in range(total):
        circular = rng.random() < 0.67
        scenario = rng.choice(["plain", "plain", "cache", "origin"]) if circular else "plain"
        rules = gen_rules(rng, scenario)
        length, genes = gen_layout(rng, [c * 1000 for c, *_ in rules], circular, scenario)
        hits = {}
        for name, _ in genes:
            profs = {f"p{x}" for x in range(NPROF) if rng.random() < 0.3}
            if profs:
                hits[name] = profs
        built = build_case(chk, length, circular, rules_text(rules), genes, hits, scenario)
        if not built:
            continue
        for lst, item in zip((cases, impl_outs, metas), built):
            lst.append(item)
        chk.count("full_circular" if circular else "full_linear")
        chk.count("full_scenario_" + scenario)
        if any(len(parts) > 1 for _, parts in genes):
            chk.count("full_with_origin_spanning_gene")
        if any(r[3] for r in rules):
            chk.count("full_with_extenders")
        if any(r[4] for r in rules):
            chk.count("full_with_superiors")
    # focused layouts for apply_extenders and merge_over_origin (extender-bridged chains, chains of three clusters over
    # the origin, long genes over several short ones)
    for _ in range(1500 if chk.tier == "quick" else 12000):
        length, circular, rules, genes, hits = gen_focus(rng)
        built = build_case(chk, length, circular, rules_text(rules), genes, hits, "focus")
        if not built:
            continue
        for lst, item in zip((cases, impl_outs, metas), built):
            lst.append(item)
        chk.count("focus_circular" if circular else "focus_linear")
    return cases, impl_outs, metas


def judge_full(chk, cases, impl_outs, metas, known):
    """ model (fn 2) vs implementation, cache specification (fn 4), anchors (fn 3), oracles, decision rule """
    model_outs = common.run_driver(cases)
    spec_outs = common.run_driver([[c[0], 4] + c[2:] for c in cases])
    anchor_outs = common.run_driver([[c[0], 3] + c[2:] for c in cases])
    stage_outs = common.run_driver([[c[0], 5] + c[2:] for c in cases])
    aspec_outs = common.run_driver([[c[0], 6] + c[2:] for c in cases])
    for meta, aspec in zip(metas, aspec_outs):
        meta["anchors_spec"] = decode_anchors(aspec)
    chk.corr_functions["detect_protoclusters_and_signatures (full pipeline, fn 2)"] = len(cases)
    disagreements = 0
    reproduced = set()
    for flat, impl, model, spec, anch, stage, meta in zip(cases, impl_outs, model_outs, spec_outs, anchor_outs, stage_outs, metas):
        meta["stage"] = stage[0]
        anchors = decode_anchors(anch)
        classes = classify(meta["length"], meta["circular"], meta["genes"], anchors or {}, meta["rules"])
        nontrivial = impl[0] == 1 or impl[1] > 0
        sample = {k: meta[k] for k in ("length", "circular", "rules", "genes", "hits", "implementation")}
        chk.note_case(flat, nontrivial, sample)
        replay = dict(sample)
        replay.update({"flat": flat, "model": model, "implementation_encoded": impl, "anchors_model": anchors,
                       "function": "detect_protoclusters_and_signatures"})
        if meta.get("regression_of"):
            replay["regression_witness_of_repaired_class"] = meta["regression_of"]
        # (1) the per-cutoff cache must be transparent (C03_cache_transparent): model with cache == model without
        if model != spec:
            chk.violation("broken-obligation", "model of the per-cutoff cache differs from per-rule evaluation", replay)
        if impl == model:
            verdict = spec_verdict(meta, impl, anchors)
            if verdict is None:
                continue
            cls, what = verdict
            if cls in known:
                chk.count("known_" + cls)
                if meta.get("witness_of") == cls:
                    reproduced.add(cls)
                chk.extra.setdefault("known_examples", {}).setdefault(cls, sample)
            else:
                replay["theorem_or_correspondence"] = "C03 specification evaluated on the implementation's output"
                replay["finding_class"] = cls
                chk.violation("counterexample", what, replay)
            continue
        disagreements += 1
        # implementation differs from the model: is the implementation's output wrong w.r.t. the specification?
        replay["theorem_or_correspondence"] = "detect_protoclusters_and_signatures vs C03.Model.pipeline"
        replay["model_without_cache"] = spec
        verdict = spec_verdict(meta, impl, anchors)
        if verdict is not None:
            replay["finding_class"] = verdict[0]
            chk.violation("counterexample", verdict[1] + " (and the implementation no longer behaves like the model)", replay)
        elif impl != spec and model == spec and impl[0] == 0 and model[0] == 0 and anchors is not None \
                and impl_products(impl) != impl_products(model) and not classes:
            chk.violation("counterexample", "protoclusters reported differ from those of the specification "
                          "(rules evaluated one by one on the same record)", replay)
        else:
            chk.violation("broken-correspondence", "full pipeline: implementation and model differ", replay)
    chk.extra["disagreements"] = chk.extra.get("disagreements", 0) + disagreements
    for cls in sorted(reproduced):
        chk.known(f"{known[cls]['id']} class={cls}: {known[cls]['what_fails']}")
    return model_outs


def decode_anchors(out):
    if not out or out[0] != 0:
        return None
    res, pos = {}, 2
    for _ in range(out[1]):
        ridx, n = out[pos], out[pos + 1]
        res[ridx] = out[pos + 2:pos + 2 + n]
        pos += 2 + n
    return res


def decode_protos(out):
    """ [0, n, (len, ridx, core, sur)...] (model) or [0, n, ridx, core, sur ...] (implementation) -> [(ridx, core, sur)] """
    protos, pos = [], 2

    def loc(pos):
        n = out[pos]
        parts = [tuple(out[pos + 1 + 3 * k: pos + 4 + 3 * k]) for k in range(n)]
        return parts, pos + 1 + 3 * n
    for _ in range(out[1]):
        ridx = out[pos]
        core, pos = loc(pos + 1)
        sur, pos = loc(pos)
        protos.append((ridx, core, sur))
    return protos


def impl_products(out):
    return sorted(p[0] for p in decode_protos(out))


def spec_verdict(meta, impl, anchors):
    """ decidable specification on the implementation's output; None = satisfied (or not decidable here),
        otherwise (finding class, description) """
    length, circular, genes = meta["length"], meta["circular"], meta["genes"]
    spanning = {i for i, (_, parts) in enumerate(genes) if len(parts) > 1}
    anchors = anchors or {}
    span_anchor = any(spanning & set(a) for a in anchors.values())
    if impl[0] == 1:
        # no exception belongs to a recorded class any more (C03-K2, K3 and K4 are repaired);
        # the name says which of the repaired classes the exception falls in: by the stage at which the model
        # raises when it still does, otherwise by the exception and its message
        stage = meta.get("stage")
        text = str(meta.get("implementation", ""))
        if span_anchor:
            cls = "origin_spanning_anchor_raises"
        elif circular and impl[1] == common.ERR["ValueError"] and (stage == 6 or "must be in the forward strand" in text):
            cls = "merge_pair_nonforward_wrap"
        elif circular and impl[1] == common.ERR["AssertionError"] and (stage in (5, 6) or "AssertionError: join{" in text):
            cls = "merge_pair_uncapped_neighbourhood"
        else:
            cls = f"exception_stage_{stage}"
        return cls, f"detection raises {common.ERR_NAME.get(impl[1], impl[1])} on a valid record"
    protos = decode_protos(impl)
    rules = meta["parsed"]
    verdict = superiors_verdict(meta, protos, anchors)
    if verdict:
        return verdict
    for verdict in (chain_verdict(meta, protos, anchors), separation_verdict(meta, protos), extender_verdict(meta, protos),
                    neighbourhood_verdict(meta, protos), anchors_verdict(meta, anchors)):
        if verdict:
            return verdict
    return None


def chain_verdict(meta, protos, anchors):
    """ rules without extenders/superiors: the cores are the maximal cutoff-chains (ring distance on a circular record) """
    length, circular, genes = meta["length"], meta["circular"], meta["genes"]
    spanning = {i for i, (_, parts) in enumerate(genes) if len(parts) > 1}
    rules = meta["parsed"]
    for ridx, rule in enumerate(rules):
        mine = [p for p in protos if p[0] == ridx]
        ivs = [arc_of(genes_by_id(genes)[g], length) for g in anchors.get(ridx, [])]
        if rule["ext"] or rule["sups"]:
            continue        # chains of rules with superiors: superiors_verdict (linear) / correspondence only (circular)
        comps = ring_oracle(length, circular, rule["cutoff"], ivs)
        # every component is covered by exactly one core, every core covers exactly one component
        cover = []
        for comp in comps:
            holders = [k for k, p in enumerate(mine) if all(in_parts(iv, p[1], length) for iv in comp)]
            cover.append(holders)
        ok = len(mine) == len(comps) and all(len(h) == 1 for h in cover) and len({h[0] for h in cover}) == len(comps)
        if ok:
            for comp, holders in zip(comps, cover):
                core = mine[holders[0]][1]
                wraps = any(e > length for _, e in comp)        # an origin-spanning member: the core must wrap
                tight = (len(core) == 1 and not wraps
                         and core[0][0] == min(s for s, _ in comp) and core[0][1] == max(e for _, e in comp)) or \
                        (len(core) == 2 and core[0][1] == length and core[1][0] == 0
                         and core[0][0] in {s for s, _ in comp} and core[1][1] in {e % length if e > length else e for _, e in comp})
                if tight and wraps:
                    # a chain through an origin-spanning gene: the core is the SHORTEST arc covering the chain (the ring
                    # without the largest stretch that no member covers), not just any arc from a start to an end
                    tight = (core[0][0], core[1][1]) in shortest_cover(comp, length)[1]
                if not tight:
                    ok = False
        if not ok:
            if circular and long_way_round(length, rule["cutoff"], comps, mine):
                cls = "chain_not_maximal_long_way_round"
            elif circular and spanning_chain_over_half(comps, length):
                cls = "chain_spanning_anchor_wrong_side"     # recorded class C03-K10 (input-level test)
            elif spanning & set(anchors.get(ridx, [])):
                cls = "origin_spanning_anchor"
            else:
                cls = "chain_not_maximal"
            return cls, (f"rule r{ridx}: cores {[p[1] for p in mine]} are not the maximal cutoff-chains {comps} "
                         f"of its anchoring genes")
    return None


def superiors_verdict(meta, protos, anchors):
    """ linear records, rules without extenders: a chain of an inferior rule is reported iff no chain of one of its
        superiors covers its anchoring genes (the hull of the superior chain contains the hull of the inferior one) """
    if meta["circular"]:
        return None
    rules, genes = meta["parsed"], genes_by_id(meta["genes"])
    hulls = {}
    for ridx, rule in enumerate(rules):
        ivs = [tuple(genes[g][0][:2]) for g in anchors.get(ridx, [])]
        hulls[ridx] = [(min(s for s, _ in c), max(e for _, e in c)) for c in ring_oracle(meta["length"], False, rule["cutoff"], ivs)]
    for ridx, rule in enumerate(rules):
        if not rule["sups"] or rule["ext"] or any(rules[s]["ext"] for s in rule["sups"]):
            continue
        reported = {(p[1][0][0], p[1][0][1]) for p in protos if p[0] == ridx and len(p[1]) == 1}
        for hull in hulls[ridx]:
            covered = any(o[0] <= hull[0] and hull[1] <= o[1] for s in rule["sups"] for o in hulls[s])
            if hull in reported and covered:
                return "superior_not_applied", (f"rule r{ridx}: the chain {hull} is reported although a chain of a superior rule "
                                                f"covers its core genes")
            if hull not in reported and not covered:
                return "superior_partial_overlap", (f"rule r{ridx}: the chain {hull} is dropped although no chain of its superiors "
                                                    f"{[hulls[s] for s in rule['sups']]} covers its core genes")
    return None


def shortest_cover(comp, length):
    """ a chain on a ring, members (start, end), an origin-spanning one (start, length + end) -> (length of the shortest arc
        covering all members, [(arc start, arc end)...] of every arc of that length): the ring without the largest
        stretch that no member covers """
    parts = []
    for start, end in comp:
        parts += [(start, length, 1), (0, end - length, 1)] if end > length else [(start, end, 1)]
    cov = covered(parts, length)
    gaps = [(cov[i][1], cov[i + 1][0]) for i in range(len(cov) - 1)] + [(cov[-1][1], cov[0][0] + length)]
    best = max(hi - lo for lo, hi in gaps)
    return length - best, [(hi % length, lo) for lo, hi in gaps if hi - lo == best]


def spanning_chain_over_half(comps, length):
    """ input-level class of finding C03-K10: some maximal chain of the rule contains an origin-spanning anchoring gene
        and the shortest arc covering the chain is longer than half the record.  (With an origin-bridging location among
        its arguments connect_locations puts every other location before or after the origin by which END OF THE RECORD
        its middle is nearer to; for a chain whose shortest covering arc is at most half the record that is always the
        right side, for a longer one it need not be.) """
    return any(any(end > length for _, end in comp) and 2 * shortest_cover(comp, length)[0] > length for comp in comps)


def long_way_round(length, cutoff, comps, mine):
    """ class of finding C03-K5: some reported core is a single part that covers anchors of two different chains, or
        the whole of a chain that reaches across the origin (its members are within the cutoff only through the origin,
        or one of them spans the origin - then the single part is the whole record) """
    for _, core, _ in mine:
        if len(core) != 1:
            continue
        inside = [c for c in comps if any(in_parts(iv, core, length) for iv in c)]
        whole = [c for c in inside if all(in_parts(iv, core, length) for iv in c)]
        if len(inside) >= 2 or any(max(e for _, e in c) - min(s for s, _ in c) > 0 and
                                   ring_oracle(length, False, cutoff, c) != [sorted(c)] for c in whole):
            return True
        if any(e > length for c in whole for _, e in c):
            return True     # a chain with an origin-spanning member under a single part: the whole record
    return False


def genes_by_id(genes):
    return {i: parts for i, (_, parts) in enumerate(genes)}

def run(chk):
    if not chk.build_and_audit():
        return chk.finish(RULE)
    recorded = common.load_known_findings("C03")
    known = {f["class"]: f for f in recorded if f.get("status") == "known"}
    run_linear(chk)
    cases, impl_outs, metas = run_full(chk, recorded)
    try:
        model_outs = judge_full(chk, cases, impl_outs, metas, known)
        chk.crosscheck_vm(cases, model_outs, k=(100 if chk.tier == "quick" else 700))
    except common.BuildError as exc:
        chk.violation("broken-correspondence", "the extracted model could not be evaluated: " + exc.what, {"log": exc.log})
    return chk.finish(RULE + " || " + RULE_FULL)


def replay(chk, path):
    import json
    doc = json.load(open(path))
    print("model:", common.run_driver([doc["flat"]])[0], "recorded implementation:", doc.get("implementation"))
    return 0
