"""C03: correspondence for protocluster formation on linear records: the real pipeline
(detect_protoclusters_and_signatures with dynamic profiles and rules produced by the real parser)
against the sweep model, plus an implementation-side oracle (components of the proximity graph)."""
import itertools

import common
import detect_util
from common import err_code

PROP = 3


def gen_case(rng):
    """ a linear record, 1-3 single-profile rules with own cutoff/neighbourhood, genes with gaps on the cutoffs """
    n_rules = rng.choice([1, 1, 2, 3])
    rules = []
    for r in range(n_rules):
        rules.append((rng.choice([1, 1, 2, 5]) * 1000, rng.choice([0, 1, 3, 10]) * 1000))
    cutoffs = [c for c, _ in rules]
    n_genes = rng.choice([1, 2, 3, 4, 5, 6, 8, 10])
    genes = []
    seen = set()
    pos = rng.choice([0, 0, 50, 300])
    for i in range(n_genes):
        length = rng.choice([30, 90, 300, 900, 3000])
        r = rng.random()
        if r < 0.15 and genes:
            # nested in or overlapping the previous gene
            ps, pe = genes[-1][1]
            start = rng.randint(ps, max(ps, pe - 1))
        else:
            start = pos
        end = start + length
        if (start, end) not in seen:
            seen.add((start, end))
            genes.append((f"g{i}", (start, end), rng.choice([1, -1])))
        cutoff = rng.choice(cutoffs)
        gap = rng.choice([0, 1, cutoff - 1, cutoff, cutoff + 1, cutoff + 500, 3 * cutoff, 12000])
        pos = max(pos, end) + gap
    length = max(e for _, (_, e), _ in genes) + rng.choice([0, 0, 1, 50, 1000, 6000])
    hits = {}
    for name, _, _ in genes:
        profs = {f"p{r}" for r in range(n_rules) if rng.random() < 0.65}
        if profs:
            hits[name] = profs
    return length, rules, genes, hits


def expected_components(anchors, cutoff):
    """ oracle: connected components of 'closer than the cutoff' among (start, end) intervals """
    parent = list(range(len(anchors)))

    def find(x):
        while parent[x] != x:
            x = parent[x]
        return x
    for a, b in itertools.combinations(range(len(anchors)), 2):
        (s1, e1), (s2, e2) = anchors[a], anchors[b]
        gap = max(s1, s2) - min(e1, e2)          # < 0 when overlapping
        if max(gap, 0) < cutoff:
            parent[find(a)] = find(b)
    comps = {}
    for i, iv in enumerate(anchors):
        comps.setdefault(find(i), []).append(iv)
    return sorted((min(s for s, _ in c), max(e for _, e in c)) for c in comps.values())


RULE = ("linear records, 1-3 rules 'RULE r CATEGORY c CUTOFF x NEIGHBOURHOOD y CONDITIONS p' parsed by the real parser (kilobase "
        "scaling included), dynamic profiles, 1-10 genes on both strands incl. nested/overlapping ones with gaps on "
        "{0, 1, cutoff-1, cutoff, cutoff+1, far} for one of the rules' cutoffs, record end at or beyond the last gene; "
        "non-trivial = some rule has >= 2 anchoring genes; distinct by flat encoding")


def run(chk):
    if not chk.build_and_audit():
        return chk.finish(RULE)
    rng = chk.rng
    total = 4000 if chk.tier == "quick" else 60000
    cases, impl_outs = [], []
    for _ in range(total):
        length, rules, genes, hits = gen_case(rng)
        text = "\n".join(f"RULE r{i} CATEGORY c CUTOFF {c // 1000} NEIGHBOURHOOD {nb // 1000} CONDITIONS p{i}"
                         for i, (c, nb) in enumerate(rules))
        profiles = [f"p{i}" for i in range(len(rules))]
        flat = [PROP, 1, length, len(rules)]
        anchors_by_rule = []
        for i, (c, nb) in enumerate(rules):
            anchors = [iv for name, iv, _ in genes if f"p{i}" in hits.get(name, ())]
            anchors_by_rule.append(anchors)
            flat += [c, nb, len(anchors)] + [x for iv in anchors for x in iv]
        try:
            record = detect_util.make_record(length, False, [(n, [(s, e, st)]) for n, (s, e), st in genes])
            ruleset = detect_util.make_ruleset(text, profiles, hits)
            result = detect_util.detect(record, ruleset)
            per_rule = [[] for _ in rules]
            for proto in result.protoclusters:
                idx = int(proto.product[1:])
                core, full = detect_util.loc_parts(proto.core_location), detect_util.loc_parts(proto.location)
                if len(core) != 1 or len(full) != 1:
                    per_rule[idx].append((-7, -7, -7, -7))
                    continue
                per_rule[idx].append(core[0] + full[0])
            out = [len(rules)]
            for idx, protos in enumerate(per_rule):
                protos.sort()
                out += [len(protos)] + [x for p in protos for x in p]
                # oracle on the implementation's output: cores are the hulls of the proximity components
                want = expected_components(anchors_by_rule[idx], rules[idx][0])
                got = [(p[0], p[1]) for p in protos]
                if got != want:
                    chk.violation("counterexample", "protocluster cores are not the maximal cutoff-chains of the anchoring genes",
                                  {"theorem_or_correspondence": "C03_chain_linear / detect_protoclusters_and_signatures",
                                   "input": {"length": length, "rule": rules[idx], "anchors": anchors_by_rule[idx], "genes": genes},
                                   "implementation_cores": got, "expected_cores": want, "flat": flat})
        except Exception as exc:  # pylint: disable=broad-except
            out = [-1, err_code(exc)]
            chk.count("error_" + common.ERR_NAME.get(out[1], type(exc).__name__))
        cases.append(flat)
        impl_outs.append(out)
        chk.count(f"rules_{len(rules)}")
        chk.count(f"protoclusters_{min(sum(len(a) > 0 for a in anchors_by_rule), 3)}")
        chk.note_case(flat, any(len(a) >= 2 for a in anchors_by_rule),
                      {"length": length, "rules": rules, "genes": genes, "hits": {k: sorted(v) for k, v in hits.items()},
                       "implementation": out})
    model_outs = common.correspondence(chk, cases, impl_outs,
                                       describe=lambda flat: {"function": "detect_protoclusters_and_signatures (linear)", "payload": flat[2:]})
    chk.crosscheck_vm(cases, model_outs)
    return chk.finish(RULE)


def replay(chk, path):
    import json
    doc = json.load(open(path))
    print("model:", common.run_driver([doc["flat"]])[0], "recorded implementation:", doc.get("implementation"))
    return 0
