(* property independent driver: one case per line as decimal integers -> run -> integers *)
open Model
let rec pos_of_int n = if n = 1 then XH else if n land 1 = 0 then XO (pos_of_int (n lsr 1)) else XI (pos_of_int (n lsr 1))
let z_of_int n = if n = 0 then Z0 else if n > 0 then Zpos (pos_of_int n) else Zneg (pos_of_int (-n))
let rec int_of_pos = function XH -> 1 | XO p -> 2 * int_of_pos p | XI p -> 2 * int_of_pos p + 1
let int_of_z = function Z0 -> 0 | Zpos p -> int_of_pos p | Zneg p -> - (int_of_pos p)
let () =
  try while true do
    let line = input_line stdin in
    let ints = List.filter_map (fun s -> if s = "" then None else Some (z_of_int (int_of_string s))) (String.split_on_char ' ' line) in
    let out = run ints in
    print_endline (String.concat " " (List.map (fun z -> string_of_int (int_of_z z)) out))
  done with End_of_file -> ()
