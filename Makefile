# setup: full .vo build of the Coq development, extraction, driver
.PHONY: setup clean coqchk
setup:
	/venv/bin/python -c "import sys; sys.path.insert(0,'harness'); import common; print(common.build()[0])"
clean:
	-cd coq && [ -f Makefile ] && make clean
	rm -f coq/Makefile coq/Makefile.conf coq/.Makefile.d ocaml/model.ml ocaml/model.mli ocaml/driver ocaml/*.cm* ocaml/*.o
coqchk:
	cd coq && timeout 3000 coqchk -silent -o -Q . ASV $$(find . -name Theorems.vo -o -path './Tie/*.vo' | sed 's|^\./||; s|\.vo$$||; s|/|.|g; s|^|ASV.|')
